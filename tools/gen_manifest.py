#!/venv/bin/python
"""Generates /verif/MANIFEST.json from the table below (only properties whose check module exists
are claimed; the others are listed under not_applicable with the reason)."""
import json
import os

VERIF = os.path.dirname(os.path.dirname(os.path.abspath(__file__)))

TECH = "deterministic simulation with fault injection: "

CLAIMED = {
    "C01": {
        "level": "exploration",
        "technique": TECH + "seeded S1 schedules (tensor-hash/set-iteration order) x random autograd programs, NumPy forward-mode reference model as oracle",
        "text": "Seeded search over random autograd programs, call configurations and set-iteration schedules (the simulator owns Tensor.__hash__); every .grad increment of the real backward() is compared with an independent NumPy forward-mode model and the call is re-run under another listing order and schedule. Sampling, not proof; reach (column permutations, chunk remainders, vmap sweeps) is reported in the evidence.",
        "note": "Trusted: the NumPy reference interpreter (cross-validated against torch.autograd by `simjd selftest model`), torch itself, the error-bound model. Excluded: retain_grad() graphs, non-smooth ops, 0-row/0-column Jacobians.",
        "ref": "DESIGN.md §3 C01",
    },
    "C02": {
        "level": "exploration",
        "technique": TECH + "seeded S1 schedules x random trunk/heads programs, NumPy reference model with features cut as independent variables",
        "text": "Seeded search over trunk/heads programs (1..3 features, 1..4 tasks, zero/one/many and overlapping task parameters, explicit or defaulted lists) under set-iteration schedules; task and shared parameter updates of the real mtl_backward() are compared with the reference model (row i = losses[i], through the features only).",
        "note": "Trusted: reference interpreter, torch. Excluded: features computed from other features, features that are outputs of multi-output ops (sibling ambiguity), non-smooth ops.",
        "ref": "DESIGN.md §3 C02",
    },
    "C05": {
        "level": "exploration",
        "technique": TECH + "refinement against a twin graph driven by torch.autograd under seeded schedules",
        "text": "Every scenario instantiates the same program twice; the real backward()/mtl_backward() with Constant/Sum/Mean runs on one graph (the Sum/Mean object has often been used before on matrices with other row counts; Iterable arguments come as list, tuple or one-shot generator) and torch.autograd.backward with the equivalent grad_tensors on the twin; all .grad fields must agree within a forward error bound, for all chunk sizes and schedules drawn.",
        "note": "Trusted: torch.autograd as the reference implementation. Requested-but-unreachable inputs compare as zeros (torch leaves None).",
        "ref": "DESIGN.md §3 C05",
    },
    "C06": {
        "level": "exploration",
        "technique": TECH + "seeded call histories with .grad tampering (F8) against a state model; bitwise snapshots and storage-ownership checks",
        "text": "Histories of 3-8 backward/mtl_backward calls on retained graphs interleaved with zeroing, set-to-None, in-place edits and preloads of .grad (15% of the program worlds carry a requested 0-element parameter); after every step the model of every leaf's .grad, the bytes of all tensors, the identity of unrequested .grad fields and the storage ownership of fresh .grad tensors are checked.",
        "note": "Trusted: reference interpreter; storage inspection through data_ptr/untyped_storage. Excluded: retain_grad() graphs.",
        "ref": "DESIGN.md §3 C06",
    },
    "C07": {
        "level": "exploration",
        "technique": TECH + "probe nodes observing the autograd engine (S5) + vmap-hostile node fault (F7), stratified over all (m,k) pairs",
        "text": "Simulator-owned autograd.Function probes inside generated programs log every sweep (batched or not, batch size); the sweep log must equal the ceil(m/k) schedule, values must be equal across chunk sizes and equal to the model, and chunk size 1 / single rows must never see a batched cotangent (a vmap-hostile probe must still work). Thorough tier stratifies run indices over every (m,k) with m<=12, k in {None,1..m+2}.",
        "note": "Trusted: functorch's is_batchedtensor to classify cotangents. A hostile probe with k>=2 and m>=2 may legitimately fail.",
        "ref": "DESIGN.md §3 C07",
    },
    "C08": {
        "level": "exploration",
        "technique": TECH + "same call under two set-iteration schedules and with ghost leaves must deposit the same update (layout clause only)",
        "text": "Decides only the layout clause of C08 (column permutation / zero-column invariance as it arises from the S1 schedule): one world executed under different effective column orders and with ghost leaves that influence nothing (in 20% of the runs one wide ghost of 2e4..2e5 elements; 8% of the runs are tall clustered worlds with 26..32 near-identical rows in float32); deposits must agree and ghosts must receive zeros, for every deterministic aggregator and PCGrad/Random under replayed draws.",
        "note": "Not decided: orthogonal equivariance A(JQ)=A(J)Q and the row-span clause (pure algebra, no seam). GradDrop excluded (its draw is per column).",
        "ref": "DESIGN.md §3 C08",
    },
    "C11": {
        "level": "exploration",
        "technique": TECH + "seeded call histories over aggregator instances with corrupted-Jacobian (F4) and numerical-kernel failure (F5) injection; fresh-instance replay as oracle",
        "text": "Decides the history/purity/seed/rejection/fault-path clauses: bytes of the input are unchanged by every call (also rejected and faulted ones), a clean call equals bitwise a fresh instance on the same matrix in a world with no history (instances are called across row counts and dtypes; those holding a weight/preference/leak tensor also meet matrices of the other dtype, where acceptance is not judged but after-effects are), NaN/Inf/non-2-d/row-count faults are rejected with ValueError, and injected SVD/eigh/pinv/QP/Clarabel failures either propagate, become a ValueError, or yield finite data of the right shape/dtype -- never a swallowed fault followed by another crash -- and never poison the next call.",
        "note": "Not decided: positive homogeneity and the 27-orders-of-magnitude range (pure input-space clauses). Trusted: bitwise reproducibility of LAPACK/quadprog/Clarabel in one process configuration (re-verified by the determinism self-test).",
        "ref": "DESIGN.md §3 C11",
    },
    "C12": {
        "level": "exploration",
        "technique": TECH + "defaulted vs explicit calls on twin graphs under seeded schedules; the generator's own DAG is the oracle for discovery",
        "text": "backward without inputs / mtl_backward without parameter lists on one graph, the explicit call with the model's reachability sets on a twin; all .grad fields must agree in None-ness and value; overlapping default sets must be rejected with nothing written. In a third of the runs an earlier defaulted call from other roots or with another exclusion ran on the same retained graph (history on the defaulted side only): a discovery must not depend on discoveries made before.",
        "note": "Trusted: the generator's DAG reachability. Excluded: multi-output siblings of features.",
        "ref": "DESIGN.md §3 C12",
    },
    "C13": {
        "level": "exploration",
        "technique": TECH + "seeded call histories on one graph vs a twin driven by torch.autograd with the same flags; non-destructive freed-probes",
        "text": "Histories of up to 3 backward/mtl_backward/torch.autograd calls with both retain_graph values and all chunk sizes; after each step the twin driven by torch.autograd alone must show the same outcome class, the same .grad and the same vector of freed/usable sub-graphs; probes that save tensors observe buffer freeing.",
        "note": "Trusted: torch.autograd semantics as reference. A history stops at the first RuntimeError. mtl histories with retain_graph=False use heads sharing no node besides the features.",
        "ref": "DESIGN.md §3 C13",
    },
    "C16": {
        "level": "fault_enumeration",
        "technique": TECH + "Byzantine row corruption (F6) enumerated over subset sizes and a fault palette; reference models of trimmed mean / multi-Krum as oracle",
        "text": "For each honest matrix (m<=9 workers, or a federation of 26..34 mostly near-identical workers) every corruption count <= b (resp. f) and every palette kind (1e12x outliers, colluding duplicates, copies of honest rows/extremes, zeros, sign flips) is injected; the output must equal the reference model, stay within the honest range per coordinate (TrimmedMean), be the mean of exactly k distinct lowest-score rows (Krum); too few rows must be rejected.",
        "note": "Which rows are hit is seeded, kinds and counts are enumerated. Score/order-statistic ties below 1e-6 relative are counted as ambiguous and assert nothing.",
        "ref": "DESIGN.md §3 C16",
    },
    "C18": {
        "level": "exploration",
        "technique": TECH + "the simulator owns torch.randperm/rand/randn (S2): projection-order schedules, sign draws and weight draws; reference model under the recorded draws + finite candidate set",
        "text": "Decides the PCGrad, GradDrop and Random clauses: PCGrad under scheduler-chosen projection orders is compared with the paper's algorithm on the recorded orders; for m<=4 the verdict is membership in the exhaustive candidate set of all order combinations (the whole order product is enumerated for fixed matrices in the thorough tier), for m in {5,6} a mismatch is judged after five alternative ways of using the draws; every GradDrop coordinate must be a keep-positive or keep-negative sum with the leaked share (the branch must be explained by the recorded uniforms under one of two conventions); Random's weights are strictly positive and sum to one, also when the same Random object was called before on matrices with other row counts.",
        "note": "Not decided: the MGDA and CAGrad clauses (deterministic, no seam). If the RNG seam is not reached the check degrades to the seam-agnostic candidate-set oracle and says so in the evidence.",
        "ref": "DESIGN.md §3 C18",
    },
    "C19": {
        "level": "exploration",
        "technique": TECH + "seeded histories of calls and reset() (F9) with ECOS failure injection (F5); fresh-instance replay of the suffix as oracle, solver-seam call counter",
        "text": "Histories over an alphabet of well-conditioned matrices and reset for update_weights_every 1..4: after reset the suffix must equal a fresh instance bitwise, every call must return, the solver must be invoked on calls 0,k,2k,... only and weights reused unchanged in between, and the norm bound must hold; an ECOS-failure coin keyed by (calls since reset, iteration) exercises the except branch.",
        "note": "Trusted: bitwise reproducibility of ECOS through cvxpy within one process configuration. Matrices are well-conditioned with 2..5 rows (the property's own scope).",
        "ref": "DESIGN.md §3 C19",
    },
    "C20": {
        "level": "fault_enumeration",
        "technique": TECH + "invalid-argument / non-grad-parameter / rejecting-aggregator faults (F1-F3) enumerated at every position x seeded S1 schedules; bitwise .grad snapshots",
        "text": "For each sampled world and valid call (explicit lists or one/both parameter groups defaulted; list/tuple/generator forms) every fault kind of the statement is injected at every position it can take -- plus a parameter frozen after an earlier successful call on the same graph -- under several set-iteration schedules; whenever the call raises, every tensor's .grad must be the same object with the same bytes as before (or still None). Calls that do not raise are not judged here.",
        "note": "Whether a given kind must be refused is not part of C20; the evidence reports per kind how many injected calls raised and how many had gradients in flight (partial-write window).",
        "ref": "DESIGN.md §3 C20",
    },
}

NOT_APPLICABLE = {
    "C03": "pure function of (J, pref, norm_eps, reg_eps): no schedule, state, crash point or fault in the statement or its mechanism; deciding it is input generation + KKT algebra (property-based testing / SMT), not simulation",
    "C04": "pure function of J; the requested exhaustive {-1,0,1}^(<=3x3) sweep is bounded enumeration (model checking) and the rest numeric input search -- nothing for a simulator to schedule or fault",
    "C09": "pure metamorphic relation of one function call; the 'fixed seed' for PCGrad/Random removes the only nondeterminism instead of quantifying over it",
    "C10": "rows are stacked in list order everywhere in torchjd, no seam reorders them: a pure metamorphic relation with no schedule to own",
    "C14": "construction-time key checks on immutable values; the quantifier asks for exhaustive enumeration of a term language to depth 3, which is model checking by the brief's definition; set equality of keys is independent of iteration order",
    "C15": "pure functions of their input dictionaries; their layouts under arbitrary key order are exercised end-to-end by C01/C02 where a defect would surface; a unit-level restatement adds no schedule, state or fault",
    "C17": "pure algebraic identities on full-row-rank inputs; no schedule, state or fault",
}

MODULES = {"C01": "c01", "C02": "c02", "C05": "c05", "C06": "c06", "C07": "c07", "C08": "c08", "C11": "c11", "C12": "c12",
           "C13": "c13", "C16": "c16", "C18": "c18", "C19": "c19", "C20": "c20"}


def main():
    checks = []
    na = []
    for pid in sorted(set(CLAIMED) | set(NOT_APPLICABLE)):
        if pid in CLAIMED and os.path.exists(os.path.join(VERIF, "simjd", "props", MODULES[pid] + ".py")):
            c = CLAIMED[pid]
            checks.append({
                "property_id": pid,
                "quick_cmd": f"bin/simjd check {pid} --tier quick",
                "thorough_cmd": f"bin/simjd check {pid} --tier thorough",
                "evidence_file": f"/verif/evidence/{pid}.json",
                "replay_cmd_template": "bin/simjd replay {path}",
                "engine": "simjd",
                "level_claimed": {"category": c["level"], "text": c["text"], "design_ref": c["ref"]},
                "level_note": c["note"],
                "technique": c["technique"],
            })
        elif pid in CLAIMED:
            na.append({"property_id": pid, "reason": "check under construction in this session (design: " + CLAIMED[pid]["ref"] + "); not claimed until the module is committed"})
        else:
            na.append({"property_id": pid, "reason": NOT_APPLICABLE[pid]})
    hooks_commits = []
    hc = os.path.join(VERIF, "hooks_commits.json")
    if os.path.exists(hc):
        hooks_commits = json.load(open(hc))
    manifest = {
        "version": 1,
        "setup_cmd": "bin/simjd selftest setup",
        "hooks": {
            "guard": "TORCHJD_VERIF",
            "enable": "no hook is compiled into /repo: every seam (Tensor.__hash__, torch.randperm/rand/randn, torch.linalg.svd/eigh/pinv, qpsolvers.solve_qp, cvxpy.Problem.solve, _get_leaf_tensors) is reached from the simulator process by attribute patching; the guard name is reserved and unused. Checks import torchjd from /repo/src of the current working tree (asserted at worker start-up).",
            "baseline_off_cmd": "cd /repo && /venv/bin/python -m pytest -ra -q -p no:cacheprovider --timeout=900 --continue-on-collection-errors",
            "source_commits": hooks_commits,
            "add_only": True,
        },
        "engines": [{
            "name": "simjd",
            "path": "/verif/simjd",
            "serves_properties": [c["property_id"] for c in checks],
            "kind_free_text": "seeded single-process simulator: owns set-iteration order of tensors, RNG draws of aggregators, call histories, numerical-kernel failures, Byzantine rows and invalid-argument faults; NumPy reference models and torch.autograd twins as oracles; delta-debugging minimiser; JSON replay files",
        }],
        "checks": checks,
        "not_applicable": na,
        "notes": "VERIF_SEED (default 20260927) and VERIF_TIER are honoured. Exit 0 = held (KNOWN-FINDING lines allowed), 1 = VIOLATION, 2 = HARNESS-ERROR. Known findings: /verif/known_findings.json. Self-tests: bin/simjd selftest determinism|model; sensitivity: tools/mutants.py.",
    }
    with open(os.path.join(VERIF, "MANIFEST.json"), "w") as f:
        json.dump(manifest, f, indent=1)
    print(f"claimed={[c['property_id'] for c in checks]} not_applicable={[x['property_id'] for x in na]}")


if __name__ == "__main__":
    main()
