#!/bin/sh
# One-stop self-validation of the machinery (about 2.5 hours on 16 cores):
#   model vs autograd, determinism, sensitivity (mutants + replay exactness), seeded changes, specificity.
cd "$(dirname "$0")/.." || exit 2
set -x
bin/simjd selftest model --n 3000 || exit 2
bin/simjd selftest determinism --n 60 || exit 2
tools/mutants.py --replays --out sensitivity.json || exit 1
tools/seeded.py || exit 1
tools/refactors.py || exit 1
echo "selfcheck: all good"
