#!/venv/bin/python
"""Evaluates seeded breaking changes kept under /verif/seeded/<name>/ (patch.diff, demo.py, meta.json).

For each: a scratch copy of /repo (src + tests) under /tmp/simjd_seed/<name> gets the patch; then
  1. demo.py must pass on /repo and fail on the patched copy,
  2. (with --tests) the repository's test-suite must still pass on the patched copy,
  3. the registered quick check of the targeted property (and, with --all-props, of every property) is run
     against the patched copy (`--repo`), expecting exit 1.
Results are written back into meta.json under "evaluation". The scratch copy is removed afterwards.

usage: tools/seeded.py [--import /tmp/seed_C01 --name C01_single_row_fastpath --property C01] [--only NAME] [--tests] [--all-props] [--tier quick]
"""
import argparse
import json
import os
import shutil
import subprocess
import sys
import time

VERIF = os.path.dirname(os.path.dirname(os.path.abspath(__file__)))
SEEDED = os.path.join(VERIF, "seeded")
SCRATCH = "/tmp/simjd_seed"
PROPS = ["C01", "C02", "C05", "C06", "C07", "C08", "C11", "C12", "C13", "C16", "C18", "C19", "C20"]


def run(cmd, **kw):
    return subprocess.run(cmd, stdout=subprocess.PIPE, stderr=subprocess.STDOUT, text=True, **kw)


def main():
    ap = argparse.ArgumentParser()
    ap.add_argument("--import", dest="imp", default=None)
    ap.add_argument("--name", default=None)
    ap.add_argument("--property", default=None)
    ap.add_argument("--only", default=None)
    ap.add_argument("--tests", action="store_true")
    ap.add_argument("--all-props", action="store_true")
    ap.add_argument("--tier", default="quick")
    ap.add_argument("--repo", default="/repo")
    ap.add_argument("--seeds", default=None, help="comma separated VERIF_SEED values: additionally record with which of them the target check catches the change")
    args = ap.parse_args()
    if args.imp:
        d = os.path.join(SEEDED, args.name)
        os.makedirs(d, exist_ok=True)
        for f in ("patch.diff", "demo.py", "notes.md"):
            if os.path.exists(os.path.join(args.imp, f)):
                shutil.copy(os.path.join(args.imp, f), os.path.join(d, f))
        meta_p = os.path.join(d, "meta.json")
        meta = json.load(open(meta_p)) if os.path.exists(meta_p) else {}
        meta.update({"name": args.name, "breaks_property": args.property, "origin": "independent sub-agent given only the property text and a scratch worktree"})
        json.dump(meta, open(meta_p, "w"), indent=1)
        args.only = args.name
    names = sorted(os.listdir(SEEDED)) if os.path.isdir(SEEDED) else []
    if args.only:
        names = [n for n in names if n in args.only.split(",")]
    ok_all = True
    for name in names:
        d = os.path.join(SEEDED, name)
        meta_p = os.path.join(d, "meta.json")
        if not os.path.exists(meta_p):
            continue
        meta = json.load(open(meta_p))
        pid = meta["breaks_property"]
        sc = os.path.join(SCRATCH, name)
        shutil.rmtree(sc, ignore_errors=True)
        os.makedirs(sc)
        shutil.copytree(os.path.join(args.repo, "src"), os.path.join(sc, "src"))
        shutil.copytree(os.path.join(args.repo, "tests"), os.path.join(sc, "tests"))
        for f in ("pyproject.toml",):
            shutil.copy(os.path.join(args.repo, f), os.path.join(sc, f))
        r = run(["patch", "-p1", "-i", os.path.join(d, "patch.diff")], cwd=sc)
        ev = {"patch_applies": r.returncode == 0, "when": time.strftime("%Y-%m-%d %H:%M:%S"), "repo_head": run(["git", "-C", args.repo, "rev-parse", "--short", "HEAD"]).stdout.strip()}
        if r.returncode != 0:
            ev["patch_output"] = r.stdout[-500:]
            ok_all = False
        else:
            env = dict(os.environ)
            env["PYTHONPATH"] = os.path.join(args.repo, "src")
            r0 = run(["/venv/bin/python", os.path.join(d, "demo.py")], env=env, cwd="/tmp")
            env["PYTHONPATH"] = os.path.join(sc, "src")
            r1 = run(["/venv/bin/python", os.path.join(d, "demo.py")], env=env, cwd="/tmp")
            ev["demo_passes_on_repo"] = r0.returncode == 0
            ev["demo_fails_on_patched"] = r1.returncode != 0
            if args.tests:
                rt = run(["/venv/bin/python", "-m", "pytest", "-q", "-p", "no:cacheprovider", "-n", "8", "-x", "tests"], env=env, cwd=sc)
                tail = rt.stdout.strip().splitlines()[-1] if rt.stdout.strip() else ""
                ev["test_suite_passes_on_patched"] = rt.returncode == 0
                ev["test_suite_tail"] = tail
            elif "test_suite_passes_on_patched" in meta.get("evaluation", {}):
                ev["test_suite_passes_on_patched"] = meta["evaluation"]["test_suite_passes_on_patched"]
                ev["test_suite_tail"] = meta["evaluation"].get("test_suite_tail")
            checks = {}
            for p in (PROPS if args.all_props else [pid]):
                t0 = time.time()
                rc = run([os.path.join(VERIF, "bin", "simjd"), "check", p, "--tier", args.tier, "--repo", sc, "--no-evidence"])
                line = [ln for ln in rc.stdout.splitlines() if ln.startswith("violation:")]
                checks[p] = {"exit": rc.returncode, "wall_s": round(time.time() - t0, 1), "violation": line[0][:300] if line else None}
                for ln in rc.stdout.splitlines():
                    if ln.startswith("VIOLATION") and "replay=" in ln:
                        rp = ln.split("replay=")[1].strip()
                        if os.path.exists(rp):
                            if p == pid:
                                shutil.copy(rp, os.path.join(d, "replay_found_by_check.json"))
                            os.remove(rp)
            if args.seeds:
                per_seed = {}
                for sd in args.seeds.split(","):
                    env2 = dict(os.environ)
                    env2["VERIF_SEED"] = sd
                    rc = run([os.path.join(VERIF, "bin", "simjd"), "check", pid, "--tier", args.tier, "--repo", sc, "--no-evidence"], env=env2)
                    per_seed[sd] = rc.returncode
                    for ln in rc.stdout.splitlines():
                        if ln.startswith("VIOLATION") and "replay=" in ln and os.path.exists(ln.split("replay=")[1].strip()):
                            os.remove(ln.split("replay=")[1].strip())
                ev["target_check_exit_by_verif_seed"] = per_seed
            elif "target_check_exit_by_verif_seed" in meta.get("evaluation", {}):
                ev["target_check_exit_by_verif_seed"] = meta["evaluation"]["target_check_exit_by_verif_seed"]
            ev["checks"] = checks
            ev["caught_by_target_check"] = checks[pid]["exit"] == 1
            ev["caught_by"] = sorted(p for p, c in checks.items() if c["exit"] == 1)
            if not ev["caught_by_target_check"] and meta.get("expected_caught", True):
                ok_all = False
        meta["evaluation"] = ev
        json.dump(meta, open(meta_p, "w"), indent=1)
        shutil.rmtree(sc, ignore_errors=True)
        print(f"{name:44s} prop={pid} demo(repo ok={ev.get('demo_passes_on_repo')}, patched fails={ev.get('demo_fails_on_patched')}) tests={ev.get('test_suite_passes_on_patched')} caught_by={ev.get('caught_by')} by_seed={ev.get('target_check_exit_by_verif_seed')} {(ev.get('checks', {}).get(pid, {}).get('violation') or '')[:140]}", flush=True)
    shutil.rmtree(SCRATCH, ignore_errors=True)
    return 0 if ok_all else 1


if __name__ == "__main__":
    sys.exit(main())
