#!/venv/bin/python
"""Specificity self-test: behaviour-preserving refactorings of TorchJD (kept as diffs under
/verif/refactors/) must NOT raise an alarm. Each diff is applied to a scratch copy of /repo (src + tests)
under /tmp/simjd_refac/<name>; every registered quick check is run against it (`--repo`), expecting exit 0.

usage: tools/refactors.py [--import /tmp/refac_A/r1.diff --name A1_xxx [--note file.md]] [--only NAME] [--tests] [--props C01,C02] [--tier quick]
"""
import argparse
import json
import os
import shutil
import subprocess
import sys
import time

VERIF = os.path.dirname(os.path.dirname(os.path.abspath(__file__)))
DIR = os.path.join(VERIF, "refactors")
SCRATCH = "/tmp/simjd_refac"
PROPS = ["C01", "C02", "C05", "C06", "C07", "C08", "C11", "C12", "C13", "C16", "C18", "C19", "C20"]


def run(cmd, **kw):
    return subprocess.run(cmd, stdout=subprocess.PIPE, stderr=subprocess.STDOUT, text=True, **kw)


def main():
    ap = argparse.ArgumentParser()
    ap.add_argument("--import", dest="imp", default=None)
    ap.add_argument("--name", default=None)
    ap.add_argument("--note", default=None)
    ap.add_argument("--only", default=None)
    ap.add_argument("--tests", action="store_true")
    ap.add_argument("--props", default=None)
    ap.add_argument("--tier", default="quick")
    ap.add_argument("--repo", default="/repo")
    args = ap.parse_args()
    os.makedirs(DIR, exist_ok=True)
    if args.imp:
        shutil.copy(args.imp, os.path.join(DIR, args.name + ".diff"))
        if args.note and os.path.exists(args.note):
            shutil.copy(args.note, os.path.join(DIR, args.name + ".md"))
        args.only = args.name
    names = sorted(f[:-5] for f in os.listdir(DIR) if f.endswith(".diff"))
    if args.only:
        names = [n for n in names if n in args.only.split(",")]
    props = args.props.split(",") if args.props else PROPS
    res_p = os.path.join(DIR, "results.json")
    allres = json.load(open(res_p)) if os.path.exists(res_p) else {}
    ok_all = True
    for name in names:
        sc = os.path.join(SCRATCH, name)
        shutil.rmtree(sc, ignore_errors=True)
        os.makedirs(sc)
        shutil.copytree(os.path.join(args.repo, "src"), os.path.join(sc, "src"))
        shutil.copytree(os.path.join(args.repo, "tests"), os.path.join(sc, "tests"))
        shutil.copy(os.path.join(args.repo, "pyproject.toml"), os.path.join(sc, "pyproject.toml"))
        r = run(["patch", "-p1", "-i", os.path.join(DIR, name + ".diff")], cwd=sc)
        ev = {"patch_applies": r.returncode == 0, "when": time.strftime("%Y-%m-%d %H:%M:%S"), "repo_head": run(["git", "-C", args.repo, "rev-parse", "--short", "HEAD"]).stdout.strip()}
        if r.returncode != 0:
            ev["patch_output"] = r.stdout[-400:]
        else:
            env = dict(os.environ)
            env["PYTHONPATH"] = os.path.join(sc, "src")
            if args.tests:
                rt = run(["/venv/bin/python", "-m", "pytest", "-q", "-p", "no:cacheprovider", "-n", "8", "-x", "tests"], env=env, cwd=sc)
                ev["test_suite_passes"] = rt.returncode == 0
                ev["test_suite_tail"] = rt.stdout.strip().splitlines()[-1] if rt.stdout.strip() else ""
            elif name in allres and "test_suite_passes" in allres[name]:
                ev["test_suite_passes"] = allres[name]["test_suite_passes"]
            checks = dict(allres.get(name, {}).get("checks", {})) if args.props else {}
            for p in props:
                rc = run([os.path.join(VERIF, "bin", "simjd"), "check", p, "--tier", args.tier, "--repo", sc, "--no-evidence"])
                line = [ln for ln in rc.stdout.splitlines() if ln.startswith(("violation:", "HARNESS-ERROR"))]
                checks[p] = {"exit": rc.returncode, "first": line[0][:400] if line else None}
                for ln in rc.stdout.splitlines():
                    if ln.startswith("VIOLATION") and "replay=" in ln:
                        rp = ln.split("replay=")[1].strip()
                        if os.path.exists(rp):
                            shutil.copy(rp, os.path.join(DIR, f"{name}_{p}_alarm_replay.json"))
                            os.remove(rp)
            ev["checks"] = checks
            ev["alarms"] = sorted(p for p, c in checks.items() if c["exit"] != 0)
            if ev["alarms"]:
                ok_all = False
        allres[name] = ev
        json.dump(allres, open(res_p, "w"), indent=1, sort_keys=True)
        shutil.rmtree(sc, ignore_errors=True)
        print(f"{name:48s} applies={ev['patch_applies']} tests={ev.get('test_suite_passes')} alarms={ev.get('alarms')} " + " | ".join(f"{p}: {c['first'][:160]}" for p, c in ev.get("checks", {}).items() if c["exit"] != 0), flush=True)
    shutil.rmtree(SCRATCH, ignore_errors=True)
    return 0 if ok_all else 1


if __name__ == "__main__":
    sys.exit(main())
