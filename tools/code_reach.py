"""Which statements of /repo/src/torchjd does the simulation execute? (a reach measure; run: /venv/bin/python tools/code_reach.py)"""
import sys, os
sys.path.insert(0,'/verif')
import coverage
cov=coverage.Coverage(source=['/repo/src/torchjd'], data_file='/tmp/simjd.coverage')
cov.start()
from simjd import runner
runner._worker_init('/repo')
from simjd.seeds import derive
for pid in runner.PROPS:
    root=derive(20260927,pid,'quick')
    n=120 if pid not in ('C19','C20','C11') else 60
    for i in range(n):
        try:
            runner.run_one(pid,root,i,'quick')
        except Exception as e:
            print('ERR',pid,i,repr(e)[:200])
cov.stop(); cov.save()
cov.report(show_missing=True, skip_covered=False)
