#!/venv/bin/python
"""Sensitivity self-test: applies small source mutations to scratch copies of /repo/src (under
/tmp/simjd_mut, removed afterwards) and checks that the registered check of the targeted property
reports a violation (exit 1), and that property-preserving refactors stay silent (exit 0).

usage: tools/mutants.py [--only NAME[,NAME]] [--tier quick] [--runs N] [--keep]
"""
import argparse
import json
import os
import shutil
import subprocess
import sys
import time

VERIF = os.path.dirname(os.path.dirname(os.path.abspath(__file__)))
SCRATCH = "/tmp/simjd_mut"

# name, file (relative to src/torchjd), old, new, properties expected to catch it, expected exit
M = []


def mut(name, file, old, new, props, expect=1):
    M.append({"name": name, "file": file, "old": old, "new": new, "props": props, "expect": expect})


# ---- C01 family
mut("c01_slice_swap", "autojac/_transform/aggregate.py",
    "        for key, jacobian_matrix in jacobian_matrices.items():\n            end = start + jacobian_matrix.shape[1]",
    "        for key, jacobian_matrix in reversed(list(jacobian_matrices.items())):\n            end = start + jacobian_matrix.shape[1]",
    ["C01"])
mut("c01_row_reversal", "autojac/_transform/diagonalize.py",
    "diagonal_matrix = torch.cat(flattened_considered_values).diag()",
    "diagonal_matrix = torch.cat(flattened_considered_values).diag().flip(0)",
    ["C01", "C05"])
mut("c01_disunite_set_order", "autojac/_transform/aggregate.py",
    "        for key, jacobian_matrix in jacobian_matrices.items():\n            end = start + jacobian_matrix.shape[1]",
    "        for key in set(jacobian_matrices.keys()):\n            jacobian_matrix = jacobian_matrices[key]\n            end = start + jacobian_matrix.shape[1]",
    ["C01", "C08"])
mut("c01_chunk_order", "autojac/_transform/jac.py",
    "jac_matrix = torch.vstack(jac_matrix_chunks)",
    "jac_matrix = torch.vstack(jac_matrix_chunks[::-1])",
    ["C01", "C07"])


def run(cmd, **kw):
    return subprocess.run(cmd, stdout=subprocess.PIPE, stderr=subprocess.STDOUT, text=True, **kw)


def main():
    ap = argparse.ArgumentParser()
    ap.add_argument("--only", default=None)
    ap.add_argument("--tier", default="quick")
    ap.add_argument("--runs", default=None)
    ap.add_argument("--keep", action="store_true")
    ap.add_argument("--replays", action="store_true", help="also check that each replay file reproduces on the mutant and is silent on the clean tree")
    ap.add_argument("--repo", default="/repo")
    ap.add_argument("--out", default=None, help="write the results as JSON (e.g. /verif/sensitivity.json)")
    args = ap.parse_args()
    only = set(args.only.split(",")) if args.only else None
    sys.path.insert(0, VERIF)
    extra = os.path.join(VERIF, "tools", "mutants_extra.py")
    if os.path.exists(extra):
        ns = {"mut": mut}
        exec(open(extra).read(), ns)
    results = []
    ok_all = True
    for m in M:
        if only and m["name"] not in only:
            continue
        d = os.path.join(SCRATCH, m["name"])
        shutil.rmtree(d, ignore_errors=True)
        os.makedirs(d)
        shutil.copytree(os.path.join(args.repo, "src"), os.path.join(d, "src"))
        path = os.path.join(d, "src", "torchjd", m["file"])
        src = open(path).read()
        if src.count(m["old"]) != 1:
            print(f"{m['name']}: pattern found {src.count(m['old'])} times -- mutant not applicable")
            ok_all = False
            continue
        open(path, "w").write(src.replace(m["old"], m["new"]))
        for pid in m["props"]:
            t0 = time.time()
            cmd = [os.path.join(VERIF, "bin", "simjd"), "check", pid, "--tier", args.tier, "--repo", d, "--no-evidence"]
            if args.runs:
                cmd += ["--runs", args.runs]
            r = run(cmd)
            clause = [ln for ln in r.stdout.splitlines() if ln.startswith("violation:")]
            verdict = "OK" if r.returncode == m["expect"] else "MISSED" if m["expect"] == 1 else "FALSE-ALARM"
            if verdict != "OK":
                ok_all = False
            print(f"{m['name']:32s} {pid} exit={r.returncode} expect={m['expect']} {verdict} {time.time()-t0:.0f}s {clause[0][:160] if clause else ''}", flush=True)
            rec = {"mutant": m["name"], "property": pid, "exit": r.returncode, "expect": m["expect"], "verdict": verdict}
            # replays written for mutants are scratch artefacts; before removing them, check that the replay
            # file reproduces the violation on the mutated tree (same digest) and not on the clean tree
            for ln in r.stdout.splitlines():
                if ln.startswith("VIOLATION") and "replay=" in ln:
                    p = ln.split("replay=")[1].strip()
                    if os.path.exists(p) and args.replays:
                        r1 = run([os.path.join(VERIF, "bin", "simjd"), "replay", p, "--repo", d])
                        r2 = run([os.path.join(VERIF, "bin", "simjd"), "replay", p, "--repo", args.repo])
                        dg = [x for x in r1.stdout.splitlines() if x.startswith("replay property=")]
                        same_digest = bool(dg) and dg[0].split(" digest=")[1].split()[0] == dg[0].split("recorded_digest=")[1].split()[0]
                        rec["replay_reproduces_on_mutant"] = r1.returncode == 1
                        rec["replay_digest_identical"] = same_digest
                        rec["replay_silent_on_clean_tree"] = r2.returncode == 0
                        if not (r1.returncode == 1 and same_digest and r2.returncode == 0):
                            ok_all = False
                            print(f"   REPLAY-PROBLEM {m['name']} {pid}: on mutant exit={r1.returncode} same_digest={same_digest}; on clean exit={r2.returncode}")
                    if os.path.exists(p) and not args.keep:
                        os.remove(p)
            results.append(rec)
        if not args.keep:
            shutil.rmtree(d, ignore_errors=True)
    if not args.keep:
        shutil.rmtree(SCRATCH, ignore_errors=True)
    print(json.dumps({"all_ok": ok_all, "n": len(results)}))
    if args.out:
        head = run(["git", "-C", args.repo, "rev-parse", "--short", "HEAD"]).stdout.strip()
        with open(args.out, "w") as f:
            json.dump({"repo_head": head, "tier": args.tier, "all_ok": ok_all, "results": results,
                       "mutants": [{k: m[k] for k in ("name", "file", "old", "new", "props", "expect")} for m in M if not only or m["name"] in only]}, f, indent=1)
    return 0 if ok_all else 1


if __name__ == "__main__":
    sys.exit(main())
