#!/bin/sh
# Runs every thorough check in /verif against /repo, archives the evidence it writes under
# evidence_thorough/<ID>.json, then re-runs the quick tier so that evidence/<ID>.json is the quick evidence
# again (the harness rewrites it anyway).
cd "$(dirname "$0")/.." || exit 2
mkdir -p evidence_thorough
rc=0
for p in ${PROPS:-C01 C02 C05 C06 C07 C08 C11 C12 C13 C16 C18 C19 C20}; do
  echo "=== $p thorough"
  bin/simjd check "$p" --tier thorough | grep -E "^(note|violation|VIOLATION|HARNESS|KNOWN|done|run_digest)" | cut -c1-400
  cp "evidence/$p.json" "evidence_thorough/$p.json"
  grep -q '"tier": "thorough"' "evidence_thorough/$p.json" || rc=2
done
for p in ${PROPS:-C01 C02 C05 C06 C07 C08 C11 C12 C13 C16 C18 C19 C20}; do
  bin/simjd check "$p" --tier quick | grep -E "^(note|violation|VIOLATION|HARNESS|KNOWN)"
done
exit $rc
