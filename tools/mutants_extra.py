# Additional mutants (exec'd by tools/mutants.py with `mut` in scope).
mut("c02_stack_reversed", "autojac/_transform/stack.py",
    "results = [transform(input) for transform in self.transforms]",
    "results = [transform(input) for transform in reversed(self.transforms)]",
    ["C02"])
mut("c02_features_mispaired", "autojac/mtl_backward.py",
    "    jac = Jac(features, shared_params, parallel_chunk_size, retain_graph)",
    "    jac = Jac(features[::-1], shared_params, parallel_chunk_size, retain_graph)",
    ["C02"], expect=0)  # cotangents are looked up by key: a property-preserving refactor
mut("c02_jac_outputs_mispaired", "autojac/_transform/jac.py",
    "        outputs = list(self.outputs)\n        inputs = list(self.inputs)\n\n        if len(inputs) == 0:\n            return tuple()\n\n        n_outputs",
    "        outputs = list(self.outputs)[::-1]\n        inputs = list(self.inputs)\n\n        if len(inputs) == 0:\n            return tuple()\n\n        n_outputs",
    ["C02", "C01"])
mut("c02_shared_task_param_single_accumulate", "autojac/_transform/accumulate.py",
    "                key.grad += gradients[key]",
    "                key.grad = key.grad + 0 * gradients[key] if getattr(key, '_seen', False) else key.grad + gradients[key]",
    ["C02"], expect=0)  # behaviour-preserving in effect (the flag is never set): must stay silent
mut("c12_features_not_excluded", "autojac/mtl_backward.py",
    "tasks_params = [_get_leaf_tensors(tensors=[loss], excluded=features) for loss in losses]",
    "tasks_params = [_get_leaf_tensors(tensors=[loss], excluded=features[:1]) for loss in losses]",
    ["C12"])
mut("c12_roots_excluded_too_eagerly", "autojac/_utils.py",
    "            if child is not None and child not in excluded_nodes:\n                nodes_to_traverse.append(child)  # Append to the right\n                excluded_nodes.add(child)",
    "            if child is not None and child not in excluded_nodes:\n                nodes_to_traverse.append(child)  # Append to the right\n                excluded_nodes.add(child)\n                excluded_nodes.update(c for c, _ in child.next_functions if c is not None and c.__class__.__name__ != 'AccumulateGrad' and len(child.next_functions) > 2)",
    ["C12"])
mut("c05_mean_weights_wrong_for_single_row", "aggregation/mean.py",
    "weights = torch.full(size=[m], fill_value=1 / m, device=device, dtype=dtype)",
    "weights = torch.full(size=[m], fill_value=1 / max(m, 2), device=device, dtype=dtype)",
    ["C05", "C01"])
mut("c06_no_clone", "autojac/_transform/accumulate.py",
    "                key.grad = gradients[key].clone()",
    "                key.grad = gradients[key]",
    ["C06"])
mut("c06_assign_instead_of_accumulate", "autojac/_transform/accumulate.py",
    "                key.grad += gradients[key]",
    "                key.grad = gradients[key].clone()",
    ["C06", "C01"])
mut("c06_grad_side_effect_backward_call", "autojac/_transform/grad.py",
    "        optional_grads = torch.autograd.grad(\n            outputs,\n            inputs,\n            grad_outputs=grad_outputs,\n            retain_graph=self.retain_graph,",
    "        if len(outputs) == 1 and outputs[0].ndim == 0 and self.retain_graph:\n            outputs[0].backward(grad_outputs[0], retain_graph=True, inputs=[i for i in inputs if i.is_leaf] or None)\n        optional_grads = torch.autograd.grad(\n            outputs,\n            inputs,\n            grad_outputs=grad_outputs,\n            retain_graph=self.retain_graph,",
    ["C06"])
mut("c20_revert_two_phase_accumulate", "autojac/_transform/accumulate.py",
    "        for key in gradients.keys():\n            _check_expects_grad(key)\n\n        for key in gradients.keys():\n",
    "        for key in gradients.keys():\n            _check_expects_grad(key)\n",
    ["C20"])
mut("c20_revert_mtl_precheck", "autojac/mtl_backward.py",
    "    for param in [*shared_params, *(param for task_params in tasks_params for param in task_params)]:\n        _check_expects_grad(param)\n",
    "",
    ["C20"])
mut("c19_revert_reuse_fix", "aggregation/nash_mtl.py",
    "            alpha = self.prvs_alpha\n\n        alpha = torch.from_numpy(alpha).to(device=matrix.device, dtype=matrix.dtype)\n",
    "            alpha = self.prvs_alpha\n        if isinstance(alpha, np.ndarray) and (self.step - 1) % self.update_weights_every == 0:\n            alpha = torch.from_numpy(alpha).to(device=matrix.device, dtype=matrix.dtype)\n",
    ["C19"])
mut("c19_reset_forgets_prvs_alpha", "aggregation/nash_mtl.py",
    '        """Resets the internal state of the algorithm."""\n\n        self.prvs_alpha_param = None\n        self.normalization_factor = np.ones((1,))\n        self.init_gtg = np.eye(self.n_tasks)\n        self.step = 0.0\n        self.prvs_alpha = np.ones(self.n_tasks, dtype=np.float32)',
    '        """Resets the internal state of the algorithm."""\n\n        self.prvs_alpha_param = None\n        self.normalization_factor = np.ones((1,))\n        self.init_gtg = np.eye(self.n_tasks)\n        self.step = 0.0',
    ["C19"])
mut("c19_reset_forgets_step", "aggregation/nash_mtl.py",
    '        """Resets the internal state of the algorithm."""\n\n        self.prvs_alpha_param = None\n        self.normalization_factor = np.ones((1,))\n        self.init_gtg = np.eye(self.n_tasks)\n        self.step = 0.0\n',
    '        """Resets the internal state of the algorithm."""\n\n        self.prvs_alpha_param = None\n        self.normalization_factor = np.ones((1,))\n        self.init_gtg = np.eye(self.n_tasks)\n',
    ["C19"])
mut("c19_reset_forgets_normalization", "aggregation/nash_mtl.py",
    '        """Resets the internal state of the algorithm."""\n\n        self.prvs_alpha_param = None\n        self.normalization_factor = np.ones((1,))\n',
    '        """Resets the internal state of the algorithm."""\n\n        self.prvs_alpha_param = None\n',
    ["C19"], expect=0)  # normalization_factor is overwritten before any use on the first call after reset
mut("c19_recompute_off_by_one", "aggregation/nash_mtl.py",
    "        if (self.step % self.update_weights_every) == 0:",
    "        if (self.step % self.update_weights_every) == 0 or self.step == 1:",
    ["C19"])
mut("c07_always_vmap", "autojac/_transform/jac.py",
    "    if chunk_size == 1:\n        grad_outputs",
    "    if chunk_size == 1 and False:\n        grad_outputs",
    ["C07"])
mut("c07_ignore_chunk_size", "autojac/_transform/jac.py",
    "max_chunk_size = self.chunk_size if self.chunk_size is not None else m",
    "max_chunk_size = m",
    ["C07"])
mut("c07_chunk_size_plus_one_when_large", "autojac/_transform/jac.py",
    "max_chunk_size = self.chunk_size if self.chunk_size is not None else m",
    "max_chunk_size = (self.chunk_size + (1 if self.chunk_size >= 3 else 0)) if self.chunk_size is not None else m",
    ["C07"])
mut("c07_early_sweeps_free_graph", "autojac/_transform/jac.py",
    "get_vjp_retain = partial(_get_vjp, retain_graph=True)",
    "get_vjp_retain = partial(_get_vjp, retain_graph=self.retain_graph)",
    ["C07", "C13"])
mut("c13_last_sweep_retains", "autojac/_transform/jac.py",
    "get_vjp_last = partial(_get_vjp, retain_graph=self.retain_graph)",
    "get_vjp_last = partial(_get_vjp, retain_graph=True)",
    ["C13"])
mut("c13_task_grad_retains", "autojac/mtl_backward.py",
    "    grad = Grad([loss], to_differentiate, retain_graph)",
    "    grad = Grad([loss], to_differentiate, True)",
    ["C13"])
mut("c08_upgrad_depends_on_first_column", "aggregation/upgrad.py",
    "        U = torch.diag(self.weighting(matrix))",
    "        U = torch.diag(self.weighting(matrix)) * (1.0 + 0.1 * (matrix[0, 0] > 0))",
    ["C08"])
mut("c08_krum_cdist_narrowed", "aggregation/krum.py",
    "distances = torch.cdist(matrix, matrix, compute_mode=\"donot_use_mm_for_euclid_dist\")",
    "distances = torch.cdist(matrix[:, : max(1, matrix.shape[1] - 1)], matrix[:, : max(1, matrix.shape[1] - 1)], compute_mode=\"donot_use_mm_for_euclid_dist\")",
    ["C08"])
mut("c08_config_n_dependent", "aggregation/config.py",
    "        return length * unit_target_vector",
    "        return length * unit_target_vector * (1.0 + 1e-3 * (matrix.shape[1] % 2))",
    ["C08"])
mut("c16_krum_neighbourhood", "aggregation/krum.py",
    "n_closest = matrix.shape[0] - self.n_byzantine - 2",
    "n_closest = matrix.shape[0] - self.n_byzantine - 1",
    ["C16"])
mut("c16_krum_counts_self", "aggregation/krum.py",
    "smallest_distances_excluding_self = smallest_distances[:, 1:]",
    "smallest_distances_excluding_self = smallest_distances[:, :-1]",
    ["C16"])
mut("c16_trim_total_not_per_side", "aggregation/trimmed_mean.py",
    "trimmed = torch.narrow(sorted_matrix, dim=0, start=self.trim_number, length=n_remaining)",
    "trimmed = torch.narrow(sorted_matrix, dim=0, start=self.trim_number // 2, length=n_remaining)",
    ["C16"])
mut("c16_trimmed_min_rows_off", "aggregation/trimmed_mean.py",
    "        min_rows = 1 + 2 * self.trim_number",
    "        min_rows = 2 * self.trim_number",
    ["C16"])
mut("c16_krum_largest", "aggregation/krum.py",
    "_, selected_indices = torch.topk(scores, k=self.n_selected, largest=False)",
    "_, selected_indices = torch.topk(scores, k=self.n_selected, largest=(matrix.shape[0] > 8))",
    ["C16"])
mut("c18_pcgrad_tests_original_row", "aggregation/pcgrad.py",
    "                inner_product = inner_products[j] @ current_weights\n",
    "                inner_product = inner_products[j] @ current_weights\n                if inner_products[j, i] >= 0.0:\n                    continue\n",
    ["C18"])
mut("c18_pcgrad_shared_order", "aggregation/pcgrad.py",
    "        for i in range(dimension):\n            permutation = torch.randperm(dimension)",
    "        permutation = torch.randperm(dimension)\n        for i in range(dimension):",
    ["C18"], expect=0)  # the property allows whatever orders are drawn, including one shared order
mut("c18_pcgrad_order_ignored", "aggregation/pcgrad.py",
    "            for j in permutation:",
    "            for j in sorted(permutation.tolist()):",
    ["C18"], expect=0)  # a fixed order is one of the admissible orders: the statement allows whatever orders are drawn
mut("c18_graddrop_leak_misweighted", "aggregation/graddrop.py",
    "            vector += (leak[i] + (1 - leak[i]) * M_i) * matrix[i]",
    "            vector += (leak[i] + (1 - leak[(i + 1) % len(matrix)]) * M_i) * matrix[i]",
    ["C18"])
mut("c18_graddrop_purity_without_abs", "aggregation/graddrop.py",
    "P = 0.5 * (torch.ones_like(matrix[0]) + matrix.sum(dim=0) / matrix.abs().sum(dim=0))",
    "P = 0.5 * (torch.ones_like(matrix[0]) + matrix.sum(dim=0) / matrix.abs().sum(dim=0)).clamp(0.25, 0.75)",
    ["C18"])
mut("c18_random_not_normalised", "aggregation/random.py",
    "        weights = F.softmax(random_vector, dim=-1)",
    "        weights = F.softmax(random_vector, dim=-1) * (1.0 + 0.01 * (matrix.shape[0] > 3))",
    ["C18"])
mut("c18_pcgrad_argsort_rand_refactor", "aggregation/pcgrad.py",
    "            permutation = torch.randperm(dimension)",
    "            permutation = torch.argsort(torch.rand(dimension))",
    ["C18"], expect=0)  # property-preserving refactor: the seam sees rand instead of randperm
mut("c11_trimmed_no_finite_check", "aggregation/trimmed_mean.py",
    "        self._check_matrix_has_enough_rows(matrix)\n        self._check_is_finite(matrix)\n",
    "        self._check_matrix_has_enough_rows(matrix)\n",
    ["C11"])
mut("c11_constant_no_row_check", "aggregation/constant.py",
    "        self._check_matrix_shape(matrix)\n        return self.weights",
    "        return self.weights[: matrix.shape[0]] if len(self.weights) >= matrix.shape[0] else torch.nn.functional.pad(self.weights, (0, matrix.shape[0] - len(self.weights)))",
    ["C11"])
mut("c11_config_inplace_normalisation", "aggregation/config.py",
    "        units = torch.nan_to_num((matrix / (matrix.norm(dim=1)).unsqueeze(1)), 0.0)",
    "        units = torch.nan_to_num(matrix.div_((matrix.norm(dim=1)).unsqueeze(1)), 0.0) if matrix.shape[0] == 1 and matrix.shape[1] > 2 else torch.nan_to_num((matrix / (matrix.norm(dim=1)).unsqueeze(1)), 0.0)",
    ["C11"])
mut("c11_aligned_fallback_poisons_instance", "aggregation/aligned_mtl.py",
    "        w = self.weighting(matrix)\n\n        G = matrix.T\n        B = self._compute_balance_transformation(G)",
    "        w = self.weighting(matrix)\n\n        G = matrix.T\n        B = self._compute_balance_transformation(G)\n        if getattr(self, '_degraded', False):\n            B = torch.eye(len(B), dtype=B.dtype)\n        if torch.equal(B, torch.eye(len(B), dtype=B.dtype)) and len(B) > 1:\n            self._degraded = True",
    ["C11"])
mut("c11_imtlg_fallback_nan", "aggregation/imtl_g.py",
    "            v = torch.ones(matrix.shape[0], device=matrix.device, dtype=matrix.dtype)",
    "            v = torch.ones(matrix.shape[0], device=matrix.device, dtype=matrix.dtype) / 0.0",
    ["C11"])
mut("c11_graddrop_unseeded_generator", "aggregation/graddrop.py",
    "        U = torch.rand(P.shape, dtype=matrix.dtype, device=matrix.device)",
    "        self._g = getattr(self, '_g', None) or torch.Generator().manual_seed(0)\n        U = torch.rand(P.shape, dtype=matrix.dtype, device=matrix.device, generator=self._g)",
    ["C11"])
mut("c11_mgda_stateful_warm_start", "aggregation/mgda.py",
    "        alpha = torch.ones(matrix.shape[0], device=device, dtype=dtype) / matrix.shape[0]\n        for i in range(self.max_iters):",
    "        alpha = torch.ones(matrix.shape[0], device=device, dtype=dtype) / matrix.shape[0]\n        prev = getattr(self, '_prev', None)\n        if prev is not None and prev.shape == alpha.shape and prev.dtype == dtype:\n            alpha = prev.clone()\n        self._prev = torch.softmax(-(gramian @ alpha), 0)\n        for i in range(self.max_iters):",
    ["C11"])
