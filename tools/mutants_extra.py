# Additional mutants (exec'd by tools/mutants.py with `mut` in scope).
mut("c02_stack_reversed", "autojac/_transform/stack.py",
    "results = [transform(input) for transform in self.transforms]",
    "results = [transform(input) for transform in reversed(self.transforms)]",
    ["C02"])
mut("c02_features_mispaired", "autojac/mtl_backward.py",
    "    jac = Jac(features, shared_params, parallel_chunk_size, retain_graph)",
    "    jac = Jac(features[::-1], shared_params, parallel_chunk_size, retain_graph)",
    ["C02"], expect=0)  # cotangents are looked up by key: a property-preserving refactor
mut("c02_jac_outputs_mispaired", "autojac/_transform/jac.py",
    "        outputs = list(self.outputs)\n        inputs = list(self.inputs)\n\n        if len(inputs) == 0:\n            return tuple()\n\n        n_outputs",
    "        outputs = list(self.outputs)[::-1]\n        inputs = list(self.inputs)\n\n        if len(inputs) == 0:\n            return tuple()\n\n        n_outputs",
    ["C02", "C01"])
mut("c02_shared_task_param_single_accumulate", "autojac/_transform/accumulate.py",
    "                key.grad += gradients[key]",
    "                key.grad = key.grad + 0 * gradients[key] if getattr(key, '_seen', False) else key.grad + gradients[key]",
    ["C02"], expect=0)  # behaviour-preserving in effect (the flag is never set): must stay silent
mut("c12_features_not_excluded", "autojac/mtl_backward.py",
    "tasks_params = [_get_leaf_tensors(tensors=[loss], excluded=features) for loss in losses]",
    "tasks_params = [_get_leaf_tensors(tensors=[loss], excluded=features[:1]) for loss in losses]",
    ["C12"])
mut("c12_roots_excluded_too_eagerly", "autojac/_utils.py",
    "            if child is not None and child not in excluded_nodes:\n                nodes_to_traverse.append(child)  # Append to the right\n                excluded_nodes.add(child)",
    "            if child is not None and child not in excluded_nodes:\n                nodes_to_traverse.append(child)  # Append to the right\n                excluded_nodes.add(child)\n                excluded_nodes.update(c for c, _ in child.next_functions if c is not None and c.__class__.__name__ != 'AccumulateGrad' and len(child.next_functions) > 2)",
    ["C12"])
mut("c05_mean_weights_wrong_for_single_row", "aggregation/mean.py",
    "weights = torch.full(size=[m], fill_value=1 / m, device=device, dtype=dtype)",
    "weights = torch.full(size=[m], fill_value=1 / max(m, 2), device=device, dtype=dtype)",
    ["C05", "C01"])
