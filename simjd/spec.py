"""Seeded generation of program specs (JSON) -- the 'world' of an autojac scenario.

A spec is {"dtype", "leaves": [{"name","shape","rg","vals"}], "nodes": [{"op","in","out","p"}]}.
Everything is drawn from the random.Random passed in; only lists are iterated.
"""
import copy

from .model import MULTI_OUT, Model, numel

LEAF_SHAPES = [
    (), (), (1,), (2,), (2,), (3,), (3,), (4,), (1, 1), (2, 1), (1, 3), (2, 2), (2, 3), (3, 2),
    (1, 2, 1), (2, 1, 2), (1, 1, 1, 2), (2, 1, 1, 1),
]
OUT_SHAPES = [(), (), (1,), (2,), (3,), (1, 1), (2, 1), (1, 2), (2, 2), (1, 2, 1), (3, 1), (4,)]

UNARY_OPS = ["tanh", "sin", "square", "softplus", "neg", "sigmoid", "cube"]
SAVING_OPS = ["tanh", "sin", "square", "sigmoid", "cube", "mul", "outer", "matmul"]


def _val(rng):
    # multiples of 1/8 in [-2, 2], exactly representable in float32; zero is rare
    while True:
        k = rng.randint(-16, 16)
        if k != 0 or rng.random() < 0.1:
            return k / 8.0


def _wval(rng):
    while True:
        k = rng.randint(-4, 4)
        if k != 0 or rng.random() < 0.15:
            return k / 4.0


class Gen:
    def __init__(self, rng, dtype="float64", p_probe=0.0, p_hostile=0.0, p_detach=0.03, prefix="v"):
        self.rng = rng
        self.spec = {"dtype": dtype, "leaves": [], "nodes": []}
        self.model = None
        self.p_probe = p_probe
        self.p_hostile = p_hostile
        self.p_detach = p_detach
        self.prefix = prefix
        self.counter = 0
        self.shape = {}
        self.anc = {}  # name -> set of ancestor value names (incl. itself)
        self.producer = {}  # name -> op
        self.used = {}
        self.probe_tags = []
        self.allow_cast = rng.random() < 0.25  # mixed-precision programs (e.g. float64 model, float32 loss)
        # swarm: every run enables a random subset of the op kinds (many short, diverse runs beat uniform ones)
        self.swarm_off = {k for k in ("scale", "sum", "mean", "sumdim", "reshape", "transpose", "slice", "cat", "stack", "outer", "matmul", "take", "where", "unbind", "split") if rng.random() < 0.3}

    # ------------------------------------------------------------------
    def fresh(self):
        n = f"{self.prefix}{self.counter}"
        self.counter += 1
        return n

    def add_leaf(self, shape=None, rg=True):
        assert self.model is None, "leaves must be created before nodes"
        rng = self.rng
        if shape is None:
            shape = rng.choice(LEAF_SHAPES)
        name = self.fresh()
        vals = [_val(rng) for _ in range(numel(shape))]
        leaf = {"name": name, "shape": list(shape), "rg": bool(rg), "vals": vals}
        r_l = rng.random()
        if len(shape) >= 2 and r_l < 0.2:
            leaf["layout"] = "t"
        elif r_l > 0.88 and numel(shape) >= 1:
            leaf["layout"] = "s"
        if rg and rng.random() < 0.3:
            leaf["kind"] = "param"  # torch.nn.Parameter, the most common kind of leaf in user code
        self.spec["leaves"].append(leaf)
        self.shape[name] = tuple(shape)
        self.anc[name] = {name}
        self.producer[name] = "leaf"
        self.used[name] = 0
        return name

    def seal_leaves(self):
        self.model = Model({"dtype": self.spec["dtype"], "leaves": self.spec["leaves"], "nodes": []})

    def rq(self, name):
        return self.model.values[name].rq

    def _emit(self, op, ins, p=None, nout=1):
        outs = [self.fresh() for _ in range(nout)]
        node = {"op": op, "in": list(ins), "out": outs, "p": p or {}}
        self.spec["nodes"].append(node)
        res = self.model._eval(node)
        anc = set()
        for i in ins:
            anc |= self.anc[i]
            self.used[i] = self.used.get(i, 0) + 1
        for v in res:
            self.model._put(v)
            self.shape[v.name] = v.shape
            self.anc[v.name] = anc | {v.name}
            self.producer[v.name] = op
            self.used[v.name] = 0
        return outs

    def _maybe_probe(self, name):
        rng = self.rng
        if self.p_probe and rng.random() < self.p_probe and self.rq(name):
            tag = f"p{len(self.probe_tags)}"
            self.probe_tags.append(tag)
            hostile = rng.random() < self.p_hostile
            saves = rng.random() < 0.5
            p = {"tag": tag, "hostile": hostile, "saves": saves}
            if not hostile and rng.random() < 0.25:
                p = {"tag": tag, "hostile": False, "saves": False, "hook": True}
            (out,) = self._emit("probe", [name], p)
            return out
        return name

    def squash(self, name):
        """Keeps magnitudes bounded: returns a bounded version of `name` if it is big."""
        v = self.model.values[name].val
        if v.size and float(abs(v).max()) > 6.0:
            (out,) = self._emit("tanh", [name])
            return out
        return name

    def adapter(self, name, shape):
        """A value of the requested shape computed linearly from `name`."""
        n_in = numel(self.shape[name])
        n_out = numel(shape)
        W = [[_wval(self.rng) for _ in range(n_in)] for _ in range(n_out)]
        (out,) = self._emit("lin", [name], {"W": W, "shape": list(shape)})
        return out

    # ------------------------------------------------------------------
    def pick(self, pool, pred=None):
        rng = self.rng
        cands = [n for n in pool if (pred is None or pred(n))]
        if not cands:
            return None
        # prefer never-used values (connects the graph), then recent ones
        unused = [n for n in cands if self.used.get(n, 0) == 0]
        if unused and rng.random() < 0.6:
            return rng.choice(unused)
        if rng.random() < 0.5:
            return cands[-1 - min(len(cands) - 1, int(rng.expovariate(0.8)))]
        return rng.choice(cands)

    def grow(self, pool, n_nodes, allow_multi=True):
        """Adds about n_nodes nodes whose operands come from `pool` (list of names, extended in
        place with the new values). Returns the list of new value names."""
        rng = self.rng
        new = []
        ops = [
            ("unary", 5), ("scale", 1), ("bin", 6), ("lin", 3), ("sum", 1), ("mean", 1), ("sumdim", 1),
            ("reshape", 1), ("transpose", 1), ("slice", 1.5), ("cat", 1), ("stack", 0.7), ("outer", 1),
            ("matmul", 1.5), ("detach", 30 * self.p_detach), ("take", 1.0), ("where", 0.8), ("cast", 0.5 if self.allow_cast else 0.0),
        ]
        if allow_multi:
            ops += [("unbind", 1), ("split", 0.7)]
        ops = [(o, w) for o, w in ops if o not in self.swarm_off]
        names = [o for o, _ in ops]
        weights = [w for _, w in ops]
        target = len(self.spec["nodes"]) + n_nodes
        guard = 0
        while len(self.spec["nodes"]) < target and guard < 10 * n_nodes + 20:
            guard += 1
            kind = rng.choices(names, weights)[0]
            outs = self._grow_one(kind, pool)
            if outs is None:
                continue
            for o in outs:
                o2 = self.squash(o)
                pool.append(o2)
                new.append(o)
                if o2 != o:
                    new.append(o2)
        return new

    def _grow_one(self, kind, pool):
        rng = self.rng
        sh = self.shape
        if kind == "unary":
            x = self.pick(pool)
            x = self._maybe_probe(x)
            return self._emit(rng.choice(UNARY_OPS), [x])
        if kind == "scale":
            x = self.pick(pool)
            return self._emit("scale", [x], {"c": rng.choice([-2.0, -0.5, 0.5, 1.5, 3.0])})
        if kind == "bin":
            a = self.pick(pool)
            a = self._maybe_probe(a)
            b = None
            r = rng.random()
            if r < 0.55:
                b = self.pick(pool, lambda n: sh[n] == sh[a])
            elif r < 0.75:
                b = self.pick(pool, lambda n: sh[n] == ())
            if b is None and len(sh[a]) >= 1 and rng.random() < 0.5:
                # general broadcasting (bias-like operand): drop leading dims and/or set dims to 1
                full = list(sh[a])
                keep_from = rng.randint(0, len(full) - 1)
                bshape = [d if rng.random() < 0.6 else 1 for d in full[keep_from:]]
                src = self.pick(pool, lambda n: numel(sh[n]) <= 12)
                if src is None:
                    return None
                b = self.adapter(src, tuple(bshape))
            if b is None:
                src = self.pick(pool, lambda n: numel(sh[n]) <= 12)
                if src is None:
                    return None
                b = self.adapter(src, sh[a])
            b = self._maybe_probe(b)
            op = rng.choice(["add", "sub", "mul", "mul"])
            if rng.random() < 0.5:
                a, b = b, a
            return self._emit(op, [a, b])
        if kind == "lin":
            x = self.pick(pool, lambda n: numel(sh[n]) <= 12)
            if x is None:
                return None
            x = self._maybe_probe(x)
            return [self.adapter(x, rng.choice(OUT_SHAPES))]
        if kind in ("sum", "mean"):
            x = self.pick(pool, lambda n: len(sh[n]) >= 1)
            if x is None:
                return None
            return self._emit(kind, [x])
        if kind == "sumdim":
            x = self.pick(pool, lambda n: len(sh[n]) >= 1)
            if x is None:
                return None
            return self._emit("sumdim", [x], {"dim": rng.randrange(len(sh[x]))})
        if kind == "reshape":
            x = self.pick(pool)
            n = numel(sh[x])
            cands = [s for s in OUT_SHAPES + LEAF_SHAPES if numel(s) == n and tuple(s) != sh[x]]
            if not cands:
                return None
            return self._emit("reshape", [x], {"shape": list(rng.choice(cands))})
        if kind == "transpose":
            x = self.pick(pool, lambda n: len(sh[n]) >= 2)
            if x is None:
                return None
            d0, d1 = rng.sample(range(len(sh[x])), 2)
            return self._emit("transpose", [x], {"d0": d0, "d1": d1})
        if kind == "slice":
            x = self.pick(pool, lambda n: any(s >= 2 for s in sh[n]))
            if x is None:
                return None
            dims = [d for d, s in enumerate(sh[x]) if s >= 2]
            d = rng.choice(dims)
            size = sh[x][d]
            start = rng.randrange(size)
            stop = rng.randint(start + 1, size)
            if start == 0 and stop == size:
                stop = size - 1
            return self._emit("slice", [x], {"dim": d, "start": start, "stop": stop})
        if kind in ("cat", "stack"):
            a = self.pick(pool, lambda n: len(sh[n]) >= 1 and numel(sh[n]) <= 4)
            if a is None:
                return None
            k = rng.choice([2, 2, 3])
            ins = [a]
            for _ in range(k - 1):
                b = self.pick(pool, lambda n: sh[n] == sh[a])
                ins.append(b if b is not None else a)
            rng.shuffle(ins)
            if kind == "stack":
                return self._emit("stack", ins)
            return self._emit("cat", ins, {"dim": rng.randrange(len(sh[a]))})
        if kind == "outer":
            a = self.pick(pool, lambda n: len(sh[n]) == 1)
            b = self.pick(pool, lambda n: len(sh[n]) == 1)
            if a is None or b is None:
                return None
            if sh[a][0] * sh[b][0] > 9:
                return None
            return self._emit("outer", [a, b])
        if kind == "matmul":
            a = self.pick(pool, lambda n: len(sh[n]) in (1, 2))
            if a is None:
                return None
            k = sh[a][-1]
            want = rng.choice([(k,), (k, 1), (k, 2)])
            b = self.pick(pool, lambda n: sh[n] == want)
            if b is None:
                src = self.pick(pool, lambda n: numel(sh[n]) <= 12)
                if src is None:
                    return None
                b = self.adapter(src, want)
            return self._emit("matmul", [a, b])
        if kind == "detach":
            x = self.pick(pool)
            return self._emit("detach", [x])
        if kind == "cast":
            x = self.pick(pool)
            return self._emit("cast", [x])
        if kind == "take":
            x = self.pick(pool, lambda n: numel(sh[n]) >= 1)
            if x is None:
                return None
            n_el = numel(sh[x])
            k = rng.randint(1, 4)
            idx = [rng.randrange(n_el) for _ in range(k)]  # repeats on purpose: scatter-add in backward
            return self._emit("take", [x], {"idx": idx})
        if kind == "where":
            a = self.pick(pool, lambda n: numel(sh[n]) >= 2)
            if a is None:
                return None
            b = self.pick(pool, lambda n: sh[n] == sh[a] and n != a)
            if b is None:
                src = self.pick(pool, lambda n: numel(sh[n]) <= 12)
                if src is None:
                    return None
                b = self.adapter(src, sh[a])
            mask = [rng.random() < 0.5 for _ in range(numel(sh[a]))]
            return self._emit("where", [a, b], {"mask": mask})
        if kind == "unbind":
            x = self.pick(pool, lambda n: len(sh[n]) >= 1 and any(1 <= s <= 3 for s in sh[n]))
            if x is None:
                return None
            dims = [d for d, s in enumerate(sh[x]) if 1 <= s <= 3]
            d = rng.choice(dims)
            return self._emit("unbind", [x], {"dim": d}, nout=sh[x][d])
        if kind == "split":
            x = self.pick(pool, lambda n: any(s >= 2 for s in sh[n]))
            if x is None:
                return None
            dims = [d for d, s in enumerate(sh[x]) if s >= 2]
            d = rng.choice(dims)
            size = sh[x][d]
            cut = rng.randint(1, size - 1)
            return self._emit("split", [x], {"dim": d, "sizes": [cut, size - cut]}, nout=2)
        return None


# ----------------------------------------------------------------------------------------------
def gen_program(rng, dtype="float64", n_leaves=None, n_nodes=None, p_probe=0.0, p_hostile=0.0, max_cols=40):
    """A free-form program for `backward`. Returns (spec, gen)."""
    g = Gen(rng, dtype, p_probe=p_probe, p_hostile=p_hostile)
    if n_leaves is None:
        n_leaves = rng.choice([1, 2, 2, 3, 3, 4, 5, 6])
    if n_nodes is None:
        n_nodes = rng.choice([1, 2, 3, 4, 5, 6, 8, 10])
        if rng.random() < 0.06:
            n_nodes = rng.choice([14, 18, 24])  # a few deep/large programs in every batch (size swarm)
    cols = 0
    for i in range(n_leaves):
        shape = rng.choice(LEAF_SHAPES)
        if cols + numel(shape) > max_cols:
            shape = ()
        cols += numel(shape)
        rg = True if i == 0 else (rng.random() < 0.85)
        g.add_leaf(shape, rg)
    g.seal_leaves()
    pool = [leaf["name"] for leaf in g.spec["leaves"]]
    g.grow(pool, n_nodes)
    return g.spec, g


def pick_outputs(rng, g, max_rows=12, max_outputs=4):
    """1..max_outputs distinct node values that require grad, total scalars <= max_rows."""
    cands = [
        n["out"][k]
        for n in g.spec["nodes"]
        for k in range(len(n["out"]))
        if g.rq(n["out"][k]) and numel(g.shape[n["out"][k]]) >= 1
    ]
    if not cands:
        return []
    # prefer late values and sinks
    k = rng.choice([1, 1, 2, 2, 3, 4][: max(1, min(6, max_outputs + 2))])
    k = min(k, max_outputs)
    outs = []
    rows = 0
    order = list(cands)
    rng.shuffle(order)
    sinks = [n for n in order if g.used.get(n, 0) == 0]
    rest = [n for n in order if g.used.get(n, 0) != 0]
    for n in sinks + rest:
        if len(outs) >= k:
            break
        if rows + numel(g.shape[n]) <= max_rows:
            outs.append(n)
            rows += numel(g.shape[n])
    rng.shuffle(outs)
    return outs


def gen_mtl(rng, dtype="float64", p_probe=0.0, p_hostile=0.0, n_tasks=None, allow_bypass=True,
            allow_shared_task_params=True):
    """A trunk/heads program for `mtl_backward`. Returns (spec, roles, gen) or None when the draw
    produced no usable feature."""
    g = Gen(rng, dtype, p_probe=p_probe, p_hostile=p_hostile)
    n_trunk = rng.choice([1, 1, 2, 2, 3])
    if n_tasks is None:
        n_tasks = rng.choice([1, 2, 2, 3, 3, 4])
    trunk_leaves = []
    for i in range(n_trunk):
        trunk_leaves.append(g.add_leaf(rng.choice(LEAF_SHAPES), True if i == 0 else rng.random() < 0.9))
    head_leaves = []
    for t in range(n_tasks):
        k = rng.choice([0, 1, 1, 1, 2, 2])
        head_leaves.append([g.add_leaf(rng.choice(LEAF_SHAPES[:14]), rng.random() < 0.92) for _ in range(k)])
    g.seal_leaves()

    pool = list(trunk_leaves)
    new = g.grow(pool, rng.choice([1, 2, 3, 4, 5]))
    cands = [
        n for n in new
        if g.rq(n) and g.producer[n] not in MULTI_OUT and numel(g.shape[n]) >= 1 and numel(g.shape[n]) <= 6
    ]
    if not cands:
        return None
    rng.shuffle(cands)
    n_feat = rng.choice([1, 1, 1, 2, 2, 3])
    features = []
    for c in cands:
        if len(features) >= n_feat:
            break
        # pairwise non-ancestor
        if all((f not in g.anc[c]) and (c not in g.anc[f]) for f in features):
            features.append(c)
    trunk_nodes_end = len(g.spec["nodes"])

    losses = []
    task_leaf_use = []
    head_nodes = []
    for t in range(n_tasks):
        if t > 0 and head_nodes and rng.random() < 0.1:
            # a structural copy of the previous head: distinct graph nodes, bit-identical loss value
            # (numeric coincidences between objectives do happen: identically initialised heads)
            start, end = head_nodes[-1]
            mapping = {}
            for node in list(g.spec["nodes"][start:end]):
                ins = [mapping.get(x, x) for x in node["in"]]
                outs = g._emit(node["op"], ins, copy.deepcopy(node.get("p", {})), nout=len(node["out"]))
                for a, b in zip(node["out"], outs):
                    mapping[a] = b
            head_nodes.append((end, len(g.spec["nodes"])))
            losses.append(mapping[losses[-1]])
            task_leaf_use.append(list(task_leaf_use[-1]))
            head_leaves[t] = list(head_leaves[t])  # its own leaves stay unused by the copy
            continue
        n_before = len(g.spec["nodes"])
        own = list(head_leaves[t])
        extra = []
        if allow_shared_task_params and t > 0 and rng.random() < 0.3:
            prev = [x for hl in head_leaves[:t] for x in hl]
            if prev:
                extra.append(rng.choice(prev))
        if allow_bypass and rng.random() < 0.12:
            extra.append(rng.choice(trunk_leaves))
        used_feats = [f for f in features if rng.random() < 0.8]
        if not used_feats:
            used_feats = [rng.choice(features)]
        if not own and not extra and rng.random() < 0.5:
            pass  # a task with zero parameters
        hpool = list(used_feats) + own + extra
        rng.shuffle(hpool)
        g.used.update({n: 0 for n in hpool})
        hnew = g.grow(hpool, rng.choice([1, 2, 3, 4]), allow_multi=True)
        # final scalar: must depend on at least one feature and be a fresh head node
        fin_c = [
            n for n in hnew
            if g.rq(n) and numel(g.shape[n]) >= 1 and any(f in g.anc[n] for f in used_feats)
        ]
        if not fin_c:
            f = rng.choice(used_feats)
            fin_c = [g._emit("tanh", [f])[0]]
        a = rng.choice(fin_c)
        # optionally mix in another head value so that own leaves matter more often
        others = [n for n in hnew if n != a and g.rq(n) and numel(g.shape[n]) <= 12]
        if others and rng.random() < 0.7:
            b = rng.choice(others)
            b2 = g.adapter(b, g.shape[a])
            (a,) = g._emit(rng.choice(["add", "mul"]), [a, b2])
            a = g.squash(a)
        (loss,) = g._emit(rng.choice(["sum", "mean"]), [a])
        if g.shape[loss] != ():
            (loss,) = g._emit("reshape", [loss], {"shape": []})
        losses.append(loss)
        task_leaf_use.append(own + extra)
        head_nodes.append((n_before, len(g.spec["nodes"])))
    roles = {
        "features": features,
        "losses": losses,
        "trunk_leaves": trunk_leaves,
        "head_leaves": head_leaves,
        "trunk_nodes_end": trunk_nodes_end,
    }
    return g.spec, roles, g
