"""Orchestrator: seeded batches over forked workers, evidence, minimisation, replay files.

This module imports neither torch nor cvxpy; workers import them after the fork.
Exit codes: 0 held / only known findings; 1 VIOLATION; 2 HARNESS-ERROR (never reported as 0).
"""
import concurrent.futures as cf  # noqa: F401 (used by selftest)
import faulthandler
import importlib
import json
import multiprocessing
import os
import random
import sys
import time
import traceback

from .seeds import derive, digest

VERIF = os.path.dirname(os.path.dirname(os.path.abspath(__file__)))
DEFAULT_SEED = 20260927

PROPS = {
    "C01": "c01", "C02": "c02", "C05": "c05", "C06": "c06", "C07": "c07", "C08": "c08", "C11": "c11",
    "C12": "c12", "C13": "c13", "C16": "c16", "C18": "c18", "C19": "c19", "C20": "c20",
}


JOBS = {}


def _job(f):
    JOBS[f.__name__] = f
    return f


def load_prop(pid):
    return importlib.import_module(f"simjd.props.{PROPS[pid]}")


def repo_path():
    return os.environ.get("SIMJD_REPO", "/repo")


def _worker_init(repo):
    os.environ["OMP_NUM_THREADS"] = "1"
    os.environ["MKL_NUM_THREADS"] = "1"
    import warnings

    warnings.filterwarnings("ignore")
    src = os.path.join(repo, "src")
    if src not in sys.path:
        sys.path.insert(0, src)
    import torch

    torch.set_num_threads(1)
    import torchjd

    real = os.path.realpath(torchjd.__file__)
    if not real.startswith(os.path.realpath(src) + os.sep):
        raise RuntimeError(f"torchjd imported from {real}, expected under {src}")
    from . import seams

    seams.install_hash_seam()


def run_one(pid, root, index, tier, want_scenario=False):
    """One simulated run = pure function of (root seed, index, tier) and the code."""
    import torch

    mod = load_prop(pid)
    seed = derive(root, index)
    rng = random.Random(seed)
    torch.manual_seed(seed % (2**31))
    scn = mod.generate(rng, tier, index)
    if scn is None:
        return {"index": index, "seed": seed, "skipped": True}
    scn["prop"] = pid
    scn["seed"] = seed
    res = execute_scenario(mod, scn)
    out = {
        "index": index,
        "seed": seed,
        "skipped": False,
        "digest": res["digest"],
        "stats": res.get("stats", {}),
        "sig": res.get("sig"),
        "nontrivial": bool(res.get("nontrivial", True)),
        "sets": res.get("sets", {}),
        "violations": res["violations"],
    }
    if res["violations"] or want_scenario:
        out["scenario"] = scn
    return out


def execute_scenario(mod, scn):
    from . import seams

    seams.clear_ranks()
    seams.begin_run(scn.get("seed", 0))
    res = mod.execute(scn)
    seams.clear_ranks()
    res["digest"] = digest([scn, res.get("events", []), [v.get("clause") for v in res["violations"]]])
    return res


@_job
def _batch(args):
    pid, root, indices, tier, sample_first, per_run_cap = args
    faulthandler.enable()
    results = []
    for i in indices:
        faulthandler.dump_traceback_later(per_run_cap, exit=True)
        try:
            r = run_one(pid, root, i, tier, want_scenario=(i < sample_first))
        except Exception:  # noqa: BLE001
            r = {"index": i, "harness_error": traceback.format_exc()}
        finally:
            faulthandler.cancel_dump_traceback_later()
        results.append(r)
    return results


def _same(v, clause):
    """clause may be a plain clause name or (clause, key): the same violation CLASS must persist while
    shrinking (e.g. the same exception type), otherwise the minimiser drifts to another failure."""
    if isinstance(clause, (list, tuple)):
        return v.get("clause") == clause[0] and (v.get("key") or {}) == (clause[1] or {})
    return v.get("clause") == clause


def minimize(mod, scn, clause, budget=300, prelude=None):
    """Delta debugging over the scenario's own structure while the same clause still fails."""
    import copy

    pid = scn.get("prop")
    tried = 0
    current = scn
    improved = True
    while improved and tried < budget:
        improved = False
        for cand in mod.shrink(copy.deepcopy(current)):
            if tried >= budget:
                break
            tried += 1
            cand["prop"] = pid
            try:
                if prelude:
                    res = _forked(_exec_with_prelude, pid, copy.deepcopy(cand), prelude)
                else:
                    res = execute_scenario(mod, copy.deepcopy(cand))
            except Exception:  # noqa: BLE001 - ill-formed candidate
                continue
            if any(_same(v, clause) for v in res["violations"]):
                current = cand
                improved = True
                break
    return current, tried


def _run_prelude(mod, prelude):
    import copy

    for ps in prelude:
        try:
            execute_scenario(mod, copy.deepcopy(ps))
        except Exception:  # noqa: BLE001 - a prelude run only matters for the state it leaves
            pass


@_job
def _minimize_job(args):
    pid, scn, clause, budget, prelude = args
    mod = load_prop(pid)
    if not prelude:
        return minimize(mod, scn, clause, budget)
    # with a prelude every candidate needs a pristine process: fork one per candidate
    return minimize(mod, scn, clause, min(budget, 60), prelude=prelude)


@_job
def _scenarios_job(args):
    pid, root, indices, tier = args
    out = []
    for i in indices:
        r = run_one(pid, root, i, tier, want_scenario=True)
        if "scenario" in r:
            out.append(r["scenario"])
    return out


def _forked(fn, *a):
    """Runs fn(*a) in a forked child of this (already initialised) process and returns its result."""
    ctx = multiprocessing.get_context("fork")
    rd, wr = ctx.Pipe(duplex=False)
    pid = os.fork()
    if pid == 0:
        try:
            rd.close()
            wr.send(("ok", fn(*a)))
        except BaseException:  # noqa: BLE001
            try:
                wr.send(("err", traceback.format_exc()))
            except Exception:  # noqa: BLE001
                pass
        finally:
            os._exit(0)
    wr.close()
    try:
        kind, payload = rd.recv()
    except EOFError:
        kind, payload = "err", "child died"
    os.waitpid(pid, 0)
    if kind != "ok":
        raise RuntimeError(payload)
    return payload


def _exec_with_prelude(pid, scn, prelude):
    mod = load_prop(pid)
    _run_prelude(mod, prelude)
    return execute_scenario(mod, scn)


@_job
def _minimize_prelude_job(args):
    """ddmin over the list of prelude scenarios (each candidate in a pristine forked process)."""
    pid, scn, clause, prelude = args
    tried = 0

    def fails(pl):
        nonlocal tried
        tried += 1
        try:
            res = _forked(_exec_with_prelude, pid, scn, pl)
        except Exception:  # noqa: BLE001
            return False
        return any(_same(v, clause) for v in res["violations"])

    cur = list(prelude)
    n = 2
    while len(cur) >= 1 and tried < 80:
        size = max(1, len(cur) // n)
        chunks = [cur[i : i + size] for i in range(0, len(cur), size)]
        reduced = False
        for i in range(len(chunks)):
            cand = [x for j, c in enumerate(chunks) if j != i for x in c]
            if fails(cand):
                cur = cand
                n = max(n - 1, 2)
                reduced = True
                break
        if not reduced:
            if size == 1:
                break
            n = min(len(cur), n * 2)
    return cur, tried


@_job
def _meta_job(pid):
    mod = load_prop(pid)
    return {k: getattr(mod, k) for k in ("LEVEL", "BUDGET", "RULE", "REAL", "STUBS", "ASSUMPTIONS")}


@_job
def _extra_job(args):
    pid, agg_stats, sets, tier = args
    mod = load_prop(pid)
    if hasattr(mod, "evidence_extra"):
        return mod.evidence_extra(agg_stats, {k: sorted(v) for k, v in sets.items()}, tier)
    return {}


@_job
def _replay_job(args):
    pid, scn, prelude = args
    mod = load_prop(pid)
    _run_prelude(mod, prelude)
    return execute_scenario(mod, scn)


# ----------------------------------------------------------------------------------------------
def load_known():
    p = os.path.join(VERIF, "known_findings.json")
    if not os.path.exists(p):
        return []
    with open(p) as f:
        return json.load(f).get("findings", [])


def match_known(pid, violation, known):
    for k in known:
        if k.get("status") != "known" or k.get("property") != pid:
            continue
        if k.get("clause") != violation.get("clause"):
            continue
        key = violation.get("key", {})
        if all(key.get(a) == b for a, b in k.get("match", {}).items()):
            return k
    return None


class Supervisor:
    """A child of the (torch-free) orchestrator that imports torch/torchjd/cvxpy once and then forks one
    short-lived process per job. Every job therefore starts from the same pristine post-import state: a
    batch of runs is a pure function of (seed, its indices), whatever ran before on the machine -- module
    level caches or other process-global state mutated by the code under test cannot leak between
    batches, and a violation that needs such state replays with the runs of its own batch as prelude."""

    def __init__(self):
        self.ctx = multiprocessing.get_context("fork")
        self.parent, child = self.ctx.Pipe(duplex=True)
        self.proc = self.ctx.Process(target=_supervisor_main, args=(child, repo_path()), daemon=False)
        self.proc.start()
        child.close()
        msg = self.parent.recv()
        if msg[0] != "ready":
            raise RuntimeError(f"supervisor failed to start: {msg}")

    def run_jobs(self, fn_name, args_list, workers, cap):
        """Returns (results by job index, errors list, timed_out)."""
        self.parent.send(("jobs", fn_name, args_list, workers, cap))
        results, errors, timed_out = {}, [], False
        while True:
            if not self.parent.poll(cap + 120):
                timed_out = True
                break
            msg = self.parent.recv()
            if msg[0] == "result":
                results[msg[1]] = msg[2]
            elif msg[0] == "error":
                errors.append(msg[1])
            elif msg[0] == "timeout":
                timed_out = True
            elif msg[0] == "done":
                break
        return results, errors, timed_out

    def call(self, fn_name, arg, cap=600):
        res, errors, timed_out = self.run_jobs(fn_name, [arg], 1, cap)
        if timed_out or errors or 0 not in res:
            raise RuntimeError(f"job {fn_name} failed: timeout={timed_out} errors={errors[:1]}")
        return res[0]

    def close(self):
        try:
            self.parent.send(("quit",))
        except Exception:  # noqa: BLE001
            pass
        self.proc.join(timeout=10)
        if self.proc.is_alive():
            self.proc.terminate()


def _supervisor_main(conn, repo):
    import multiprocessing.connection as mpc

    try:
        _worker_init(repo)
        import cvxpy  # noqa: F401
        import qpsolvers  # noqa: F401
    except Exception:  # noqa: BLE001
        conn.send(("failed", traceback.format_exc()))
        return
    conn.send(("ready",))
    ctx = multiprocessing.get_context("fork")
    while True:
        try:
            msg = conn.recv()
        except EOFError:
            return
        if msg[0] == "quit":
            return
        _, fn_name, args_list, workers, cap = msg
        pending = list(enumerate(args_list))
        running = {}
        deadline = time.time() + cap
        timed_out = False
        while pending or running:
            while pending and len(running) < workers:
                ji, arg = pending.pop(0)
                rd, wr = ctx.Pipe(duplex=False)
                p = ctx.Process(target=_job_child, args=(wr, fn_name, arg))
                p.start()
                wr.close()
                running[rd] = (p, ji)
            ready = mpc.wait(list(running.keys()), timeout=1.0)
            for rd in ready:
                p, ji = running.pop(rd)
                try:
                    kind, payload = rd.recv()
                    if kind == "ok":
                        conn.send(("result", ji, payload))
                    else:
                        conn.send(("error", f"job {ji}: {payload}"))
                except EOFError:
                    conn.send(("error", f"job {ji}: worker process died (exit code {p.exitcode})"))
                rd.close()
                p.join()
            if time.time() > deadline:
                timed_out = True
                for rd, (p, ji) in running.items():
                    p.terminate()
                for rd, (p, ji) in running.items():
                    p.join()
                running.clear()
                pending.clear()
                conn.send(("timeout",))
        conn.send(("done",))


def _job_child(wr, fn_name, arg):
    try:
        res = JOBS[fn_name](arg)
        wr.send(("ok", res))
    except BaseException:  # noqa: BLE001
        try:
            wr.send(("err", traceback.format_exc()))
        except Exception:  # noqa: BLE001
            pass
    finally:
        wr.close()
        os._exit(0)


def check(pid, tier, seed=None, workers=None, n_runs=None, time_cap=None, write_evidence=True, quiet=False):
    t0 = time.time()
    seed = DEFAULT_SEED if seed is None else int(seed)
    os.environ["OMP_NUM_THREADS"] = "1"
    sup = Supervisor()
    try:
        return _check(sup, pid, tier, seed, workers, n_runs, time_cap, write_evidence, quiet, t0)
    finally:
        sup.close()


def _check(sup, pid, tier, seed, workers, n_runs, time_cap, write_evidence, quiet, t0):
    meta = sup.call("_meta_job", pid, cap=300)
    budget = meta["BUDGET"][tier]
    n = int(n_runs if n_runs is not None else budget["runs"])
    cap = float(time_cap if time_cap is not None else budget.get("wall", 600))
    workers = int(workers or os.environ.get("SIMJD_WORKERS", 0) or min(16, os.cpu_count() or 1))
    root = derive(seed, pid, tier)
    print(f"simjd check property={pid} tier={tier} seed={seed} root={root} runs={n} workers={workers}", flush=True)
    chunk = max(1, int(budget.get("chunk", 20)))  # independent of the worker count: batches are part of the schedule
    batches = [list(range(s, min(n, s + chunk))) for s in range(0, n, chunk)]
    sample_first = 3
    per_run_cap = int(budget.get("per_run_cap", 120))
    res_by_job, harness_errors, timed_out = sup.run_jobs("_batch", [(pid, root, b, tier, sample_first, per_run_cap) for b in batches], workers, cap)
    results = []
    for ji in sorted(res_by_job):
        results.extend(res_by_job[ji])
    # inline determinism probe: the first two batches are executed a second time in fresh processes
    det = {"reexecuted_runs": 0, "divergent": 0}
    try:
        again, _, _ = sup.run_jobs("_batch", [(pid, root, b, tier, 0, per_run_cap) for b in batches[:2]], min(2, workers), min(cap, 300))
        first = {r["index"]: r.get("digest") for ji in (0, 1) if ji in res_by_job for r in res_by_job[ji]}
        for ji in sorted(again):
            for r in again[ji]:
                if r["index"] in first:
                    det["reexecuted_runs"] += 1
                    if r.get("digest") != first[r["index"]]:
                        det["divergent"] += 1
        if det["divergent"]:
            print(f"note: {det['divergent']} of {det['reexecuted_runs']} re-executed runs produced a different event digest (nondeterminism in the code under test or in the harness)")
    except Exception as e:  # noqa: BLE001
        det["error"] = repr(e)
    results.sort(key=lambda r: r["index"])
    for r in results:
        if "harness_error" in r:
            harness_errors.append(f"run {r['index']}: {r['harness_error']}")
    done = [r for r in results if not r.get("skipped") and "harness_error" not in r]
    wall_runs = time.time() - t0

    # ------------------------------------------------------------- violations
    known = load_known()
    viol_runs = [r for r in done if r["violations"]]
    reported = []
    known_hits = {}
    exit_code = 0
    new_violation = None
    for r in viol_runs:
        unknown = [v for v in r["violations"] if match_known(pid, v, known) is None]
        for v in r["violations"]:
            k = match_known(pid, v, known)
            if k is not None:
                known_hits.setdefault(k["id"], [k, 0])[1] += 1
        if unknown and new_violation is None:
            new_violation = (r, unknown[0])
    for kid, (k, cnt) in sorted(known_hits.items()):
        print(f"KNOWN-FINDING: property={pid} {k['what']} (hit by {cnt} runs; id={kid})")
    replay_path = None
    min_info = None
    if new_violation is not None:
        r, v = new_violation
        scn = r["scenario"]
        clause = v["clause"]
        cls = [v["clause"], v.get("key") or {}]
        tried = 0
        prelude = []
        reproducible = True
        try:
            alone = sup.call("_replay_job", (pid, scn, []), cap=600)
            if any(x.get("clause") == clause for x in alone["violations"]):
                scn_min, tried = sup.call("_minimize_job", (pid, scn, cls, int(budget.get("shrink", 300)), []), cap=900)
            else:
                # the violation needs process state left by earlier runs of its batch: replay them as prelude
                batch = [b for b in batches if r["index"] in b][0]
                before = batch[: batch.index(r["index"])]
                prelude = sup.call("_scenarios_job", (pid, root, before, tier), cap=600)
                withp = sup.call("_replay_job", (pid, scn, prelude), cap=900)
                if any(x.get("clause") == clause for x in withp["violations"]):
                    prelude, t1 = sup.call("_minimize_prelude_job", (pid, scn, cls, prelude), cap=900)
                    scn_min, t2 = sup.call("_minimize_job", (pid, scn, cls, int(budget.get("shrink", 300)) // 2, prelude), cap=900)
                    tried = t1 + t2
                    print(f"note: the violation depends on process-global state left by {len(prelude)} earlier run(s) of the same batch; they are kept in the replay file as prelude")
                else:
                    reproducible = False
                    scn_min = scn
            res_min = sup.call("_replay_job", (pid, scn_min, prelude), cap=600)
        except Exception as e:  # noqa: BLE001
            print(f"note: minimisation failed ({e!r}); reporting the unminimised scenario")
            scn_min, res_min = scn, {"violations": r["violations"], "digest": r["digest"]}
        vmin = [x for x in res_min["violations"] if x.get("clause") == clause]
        vmin = vmin[0] if vmin else v
        os.makedirs(os.path.join(VERIF, "replays"), exist_ok=True)
        replay_path = os.path.join(VERIF, "replays", f"{pid}_{tier}_{seed}_{r['index']}.json")
        with open(replay_path, "w") as f:
            json.dump(
                {
                    "property": pid, "clause": clause, "tier": tier, "verif_seed": seed,
                    "run_index": r["index"], "run_seed": r["seed"], "violation": vmin,
                    "digest": res_min["digest"], "minimisation_candidates_tried": tried,
                    "prelude": prelude, "scenario": scn_min, "original_scenario": scn,
                },
                f, indent=1, sort_keys=True, default=str,
            )
        min_info = {"tried": tried, "prelude_runs": len(prelude)}
        print(f"violation: clause={clause} run_index={r['index']} run_seed={r['seed']} details={json.dumps(vmin.get('details', {}), default=str)[:600]}")
        if reproducible:
            print(f"VIOLATION property={pid} replay={replay_path}")
            exit_code = 1
        else:
            harness_errors.append(f"violation of clause {clause} in run {r['index']} did not reproduce in a fresh process, neither alone nor after the earlier runs of its batch (scenario kept in {replay_path})")

    if harness_errors or timed_out:
        for h in harness_errors[:5]:
            print("HARNESS-ERROR", h)
        if timed_out:
            print(f"HARNESS-ERROR batch exceeded wall cap of {cap}s ({len(done)}/{n} runs finished)")
        if exit_code == 0:
            exit_code = 2

    # ------------------------------------------------------------- evidence
    wall = time.time() - t0
    agg_stats = {}
    sets = {}
    sigs = set()
    for r in done:
        for k, val in r.get("stats", {}).items():
            agg_stats[k] = agg_stats.get(k, 0) + val
        for k, vals in r.get("sets", {}).items():
            s = sets.setdefault(k, set())
            for x in vals:
                s.add(x if isinstance(x, str) else json.dumps(x))
        if r.get("nontrivial") and r.get("sig") is not None:
            sigs.add(r["sig"])
    samples = [_sample_view(r["scenario"]) for r in done if "scenario" in r][:3]
    evid = {
        "property_id": pid,
        "tier": tier,
        "seed": seed,
        "level": meta["LEVEL"],
        "coverage": {
            "evaluations": len(done),
            "distinct_nontrivial": len(sigs),
            "rule": meta["RULE"],
            "samples": samples if samples else [{"note": "no run finished"}],
            "exhaustive": False,
            "runs_per_hour": int(len(done) / max(wall_runs, 1e-9) * 3600),
            "workers": workers,
            "skipped_draws": len([r for r in results if r.get("skipped")]),
            "simulated_time": {
                "unit": "logical events (API calls executed + autograd sweeps observed); torchjd has no clock",
                "api_calls": agg_stats.get("api_calls", 0),
                "sweeps_observed": agg_stats.get("sweeps", 0),
            },
            "faults_fired": {k[6:]: v for k, v in sorted(agg_stats.items()) if k.startswith("fault.")},
            "reach_probes": {k[6:]: v for k, v in sorted(agg_stats.items()) if k.startswith("reach.")},
            "counters": {k: v for k, v in sorted(agg_stats.items()) if not k.startswith(("fault.", "reach."))},
            "distinct": {k: len(v) for k, v in sorted(sets.items())},
            "real_components": meta["REAL"],
            "stubbed_components": meta["STUBS"],
            "known_findings_hit": {kid: cnt for kid, (k, cnt) in sorted(known_hits.items())},
            "run_digest": digest([[r["index"], r["digest"]] for r in done]),
            "determinism_probe": det,
        },
        "assumptions": meta["ASSUMPTIONS"],
        "wall_s": round(wall, 3),
        "violations": len([r for r in viol_runs if any(match_known(pid, v, known) is None for v in r["violations"])]),
    }
    try:
        evid["coverage"].update(sup.call("_extra_job", (pid, agg_stats, {k: sorted(v) for k, v in sets.items()}, tier), cap=300))
    except Exception as e:  # noqa: BLE001
        print(f"HARNESS-ERROR evidence_extra failed: {e!r}")
        exit_code = exit_code or 2
    if min_info:
        evid["coverage"]["minimisation"] = min_info
    if write_evidence:
        os.makedirs(os.path.join(VERIF, "evidence"), exist_ok=True)
        with open(os.path.join(VERIF, "evidence", f"{pid}.json"), "w") as f:
            json.dump(evid, f, indent=1, sort_keys=True, default=str)
    if not quiet:
        c = evid["coverage"]
        print(
            f"done: runs={len(done)} distinct_nontrivial={len(sigs)} wall={wall:.1f}s runs/h={c['runs_per_hour']} "
            f"faults={json.dumps(c['faults_fired'])} reach={json.dumps(c['reach_probes'])}"
        )
        print(f"run_digest={c['run_digest']} exit={exit_code}")
    return exit_code, evid


def _sample_view(scn):
    """A readable, size-bounded view of a scenario for the evidence file."""
    s = json.loads(json.dumps(scn, default=str))
    txt = json.dumps(s)
    if len(txt) > 6000:
        spec = s.get("spec")
        if isinstance(spec, dict):
            for leaf in spec.get("leaves", []):
                leaf.pop("vals", None)
            for node in spec.get("nodes", []):
                if "W" in node.get("p", {}):
                    node["p"]["W"] = "<omitted>"
        txt = json.dumps(s)
        if len(txt) > 12000:
            return {"truncated": txt[:12000]}
    return s


def replay(path):
    with open(path) as f:
        rp = json.load(f)
    pid = rp["property"]
    os.environ["OMP_NUM_THREADS"] = "1"
    sup = Supervisor()
    try:
        res = sup.call("_replay_job", (pid, rp["scenario"], rp.get("prelude", [])), cap=900)
    finally:
        sup.close()
    same = [v for v in res["violations"] if v.get("clause") == rp["clause"]]
    print(f"replay property={pid} clause={rp['clause']} prelude_runs={len(rp.get('prelude', []))} digest={res['digest']} recorded_digest={rp.get('digest')}")
    if same:
        print(f"violation: {json.dumps(same[0], default=str)[:800]}")
        print(f"VIOLATION property={pid} replay={path}")
        return 1
    if res["violations"]:
        print(f"other violations reproduced: {[v.get('clause') for v in res['violations']]}")
        print(f"VIOLATION property={pid} replay={path}")
        return 1
    print("replay: the recorded violation does not reproduce on this tree")
    return 0
