"""Orchestrator: seeded batches over forked workers, evidence, minimisation, replay files.

This module imports neither torch nor cvxpy; workers import them after the fork.
Exit codes: 0 held / only known findings; 1 VIOLATION; 2 HARNESS-ERROR (never reported as 0).
"""
import concurrent.futures as cf
import faulthandler
import importlib
import json
import multiprocessing
import os
import random
import sys
import time
import traceback

from .seeds import derive, digest

VERIF = os.path.dirname(os.path.dirname(os.path.abspath(__file__)))
DEFAULT_SEED = 20260927

PROPS = {
    "C01": "c01", "C02": "c02", "C05": "c05", "C06": "c06", "C07": "c07", "C08": "c08", "C11": "c11",
    "C12": "c12", "C13": "c13", "C16": "c16", "C18": "c18", "C19": "c19", "C20": "c20",
}


def load_prop(pid):
    return importlib.import_module(f"simjd.props.{PROPS[pid]}")


def repo_path():
    return os.environ.get("SIMJD_REPO", "/repo")


def _worker_init(repo):
    os.environ["OMP_NUM_THREADS"] = "1"
    os.environ["MKL_NUM_THREADS"] = "1"
    import warnings

    warnings.filterwarnings("ignore")
    src = os.path.join(repo, "src")
    if src not in sys.path:
        sys.path.insert(0, src)
    import torch

    torch.set_num_threads(1)
    import torchjd

    real = os.path.realpath(torchjd.__file__)
    if not real.startswith(os.path.realpath(src) + os.sep):
        raise RuntimeError(f"torchjd imported from {real}, expected under {src}")
    from . import seams

    seams.install_hash_seam()


def run_one(pid, root, index, tier, want_scenario=False):
    """One simulated run = pure function of (root seed, index, tier) and the code."""
    import torch

    mod = load_prop(pid)
    seed = derive(root, index)
    rng = random.Random(seed)
    torch.manual_seed(seed % (2**31))
    scn = mod.generate(rng, tier, index)
    if scn is None:
        return {"index": index, "seed": seed, "skipped": True}
    scn["prop"] = pid
    scn["seed"] = seed
    res = execute_scenario(mod, scn)
    out = {
        "index": index,
        "seed": seed,
        "skipped": False,
        "digest": res["digest"],
        "stats": res.get("stats", {}),
        "sig": res.get("sig"),
        "nontrivial": bool(res.get("nontrivial", True)),
        "sets": res.get("sets", {}),
        "violations": res["violations"],
    }
    if res["violations"] or want_scenario:
        out["scenario"] = scn
    return out


def execute_scenario(mod, scn):
    from . import seams

    seams.clear_ranks()
    res = mod.execute(scn)
    seams.clear_ranks()
    res["digest"] = digest([scn, res.get("events", []), [v.get("clause") for v in res["violations"]]])
    return res


def _batch(args):
    pid, root, indices, tier, sample_first, per_run_cap = args
    faulthandler.enable()
    results = []
    for i in indices:
        faulthandler.dump_traceback_later(per_run_cap, exit=True)
        try:
            r = run_one(pid, root, i, tier, want_scenario=(i < sample_first))
        except Exception:  # noqa: BLE001
            r = {"index": i, "harness_error": traceback.format_exc()}
        finally:
            faulthandler.cancel_dump_traceback_later()
        results.append(r)
    return results


def _minimize_job(args):
    pid, scn, clause, budget = args
    mod = load_prop(pid)
    return minimize(mod, scn, clause, budget)


def minimize(mod, scn, clause, budget=300):
    """Delta debugging over the scenario's own structure while the same clause still fails."""
    import copy

    tried = 0
    current = scn
    improved = True
    while improved and tried < budget:
        improved = False
        for cand in mod.shrink(copy.deepcopy(current)):
            if tried >= budget:
                break
            tried += 1
            try:
                res = execute_scenario(mod, copy.deepcopy(cand))
            except Exception:  # noqa: BLE001 - ill-formed candidate
                continue
            if any(v.get("clause") == clause for v in res["violations"]):
                current = cand
                improved = True
                break
    return current, tried


def _meta_job(pid):
    mod = load_prop(pid)
    return {k: getattr(mod, k) for k in ("LEVEL", "BUDGET", "RULE", "REAL", "STUBS", "ASSUMPTIONS")}


def _extra_job(args):
    pid, agg_stats, sets, tier = args
    mod = load_prop(pid)
    if hasattr(mod, "evidence_extra"):
        return mod.evidence_extra(agg_stats, {k: sorted(v) for k, v in sets.items()}, tier)
    return {}


def _replay_job(args):
    pid, scn = args
    mod = load_prop(pid)
    return execute_scenario(mod, scn)


# ----------------------------------------------------------------------------------------------
def load_known():
    p = os.path.join(VERIF, "known_findings.json")
    if not os.path.exists(p):
        return []
    with open(p) as f:
        return json.load(f).get("findings", [])


def match_known(pid, violation, known):
    for k in known:
        if k.get("status") != "known" or k.get("property") != pid:
            continue
        if k.get("clause") != violation.get("clause"):
            continue
        key = violation.get("key", {})
        if all(key.get(a) == b for a, b in k.get("match", {}).items()):
            return k
    return None


def check(pid, tier, seed=None, workers=None, n_runs=None, time_cap=None, write_evidence=True, quiet=False):
    t0 = time.time()
    seed = DEFAULT_SEED if seed is None else int(seed)
    os.environ["OMP_NUM_THREADS"] = "1"
    ctx = multiprocessing.get_context("fork")
    with cf.ProcessPoolExecutor(max_workers=1, mp_context=ctx, initializer=_worker_init, initargs=(repo_path(),)) as ex:
        meta = ex.submit(_meta_job, pid).result(timeout=300)
    budget = meta["BUDGET"][tier]
    n = int(n_runs if n_runs is not None else budget["runs"])
    cap = float(time_cap if time_cap is not None else budget.get("wall", 600))
    workers = int(workers or os.environ.get("SIMJD_WORKERS", 0) or min(16, os.cpu_count() or 1))
    root = derive(seed, pid, tier)
    print(f"simjd check property={pid} tier={tier} seed={seed} root={root} runs={n} workers={workers}", flush=True)
    chunk = max(1, min(int(budget.get("chunk", 20)), (n + workers - 1) // workers))
    batches = [list(range(s, min(n, s + chunk))) for s in range(0, n, chunk)]
    sample_first = 3
    per_run_cap = int(budget.get("per_run_cap", 120))
    results = []
    harness_errors = []
    timed_out = False
    with cf.ProcessPoolExecutor(max_workers=workers, mp_context=ctx, initializer=_worker_init, initargs=(repo_path(),)) as ex:
        futs = [ex.submit(_batch, (pid, root, b, tier, sample_first, per_run_cap)) for b in batches]
        try:
            for fut in cf.as_completed(futs, timeout=cap):
                try:
                    results.extend(fut.result())
                except Exception as e:  # noqa: BLE001 - crashed worker
                    harness_errors.append(f"worker crashed: {e!r}")
                    break
        except cf.TimeoutError:
            timed_out = True
        if timed_out or harness_errors:
            for f in futs:
                f.cancel()
            for p in list(getattr(ex, "_processes", {}).values()):
                try:
                    p.terminate()
                except Exception:  # noqa: BLE001
                    pass
    results.sort(key=lambda r: r["index"])
    for r in results:
        if "harness_error" in r:
            harness_errors.append(f"run {r['index']}: {r['harness_error']}")
    done = [r for r in results if not r.get("skipped") and "harness_error" not in r]
    wall_runs = time.time() - t0

    # ------------------------------------------------------------- violations
    known = load_known()
    viol_runs = [r for r in done if r["violations"]]
    reported = []
    known_hits = {}
    exit_code = 0
    new_violation = None
    for r in viol_runs:
        unknown = [v for v in r["violations"] if match_known(pid, v, known) is None]
        for v in r["violations"]:
            k = match_known(pid, v, known)
            if k is not None:
                known_hits.setdefault(k["id"], [k, 0])[1] += 1
        if unknown and new_violation is None:
            new_violation = (r, unknown[0])
    for kid, (k, cnt) in sorted(known_hits.items()):
        print(f"KNOWN-FINDING: property={pid} {k['what']} (hit by {cnt} runs; id={kid})")
    replay_path = None
    min_info = None
    if new_violation is not None:
        r, v = new_violation
        scn = r["scenario"]
        tried = 0
        try:
            with cf.ProcessPoolExecutor(max_workers=1, mp_context=ctx, initializer=_worker_init, initargs=(repo_path(),)) as ex:
                scn_min, tried = ex.submit(_minimize_job, (pid, scn, v["clause"], int(budget.get("shrink", 300)))).result(timeout=600)
                res_min = ex.submit(_replay_job, (pid, scn_min)).result(timeout=300)
        except Exception as e:  # noqa: BLE001
            print(f"note: minimisation failed ({e!r}); reporting the unminimised scenario")
            scn_min, res_min = scn, {"violations": r["violations"], "digest": r["digest"]}
        vmin = [x for x in res_min["violations"] if x.get("clause") == v["clause"]]
        vmin = vmin[0] if vmin else v
        os.makedirs(os.path.join(VERIF, "replays"), exist_ok=True)
        replay_path = os.path.join(VERIF, "replays", f"{pid}_{tier}_{seed}_{r['index']}.json")
        with open(replay_path, "w") as f:
            json.dump(
                {
                    "property": pid, "clause": v["clause"], "tier": tier, "verif_seed": seed,
                    "run_index": r["index"], "run_seed": r["seed"], "violation": vmin,
                    "digest": res_min["digest"], "minimisation_candidates_tried": tried,
                    "scenario": scn_min, "original_scenario": scn,
                },
                f, indent=1, sort_keys=True, default=str,
            )
        min_info = {"tried": tried}
        print(f"violation: clause={v['clause']} run_index={r['index']} run_seed={r['seed']} details={json.dumps(vmin.get('details', {}), default=str)[:600]}")
        print(f"VIOLATION property={pid} replay={replay_path}")
        exit_code = 1

    if harness_errors or timed_out:
        for h in harness_errors[:5]:
            print("HARNESS-ERROR", h)
        if timed_out:
            print(f"HARNESS-ERROR batch exceeded wall cap of {cap}s ({len(done)}/{n} runs finished)")
        if exit_code == 0:
            exit_code = 2

    # ------------------------------------------------------------- evidence
    wall = time.time() - t0
    agg_stats = {}
    sets = {}
    sigs = set()
    for r in done:
        for k, val in r.get("stats", {}).items():
            agg_stats[k] = agg_stats.get(k, 0) + val
        for k, vals in r.get("sets", {}).items():
            s = sets.setdefault(k, set())
            for x in vals:
                s.add(x if isinstance(x, str) else json.dumps(x))
        if r.get("nontrivial") and r.get("sig") is not None:
            sigs.add(r["sig"])
    samples = [_sample_view(r["scenario"]) for r in done if "scenario" in r][:3]
    evid = {
        "property_id": pid,
        "tier": tier,
        "seed": seed,
        "level": meta["LEVEL"],
        "coverage": {
            "evaluations": len(done),
            "distinct_nontrivial": len(sigs),
            "rule": meta["RULE"],
            "samples": samples if samples else [{"note": "no run finished"}],
            "exhaustive": False,
            "runs_per_hour": int(len(done) / max(wall_runs, 1e-9) * 3600),
            "workers": workers,
            "skipped_draws": len([r for r in results if r.get("skipped")]),
            "simulated_time": {
                "unit": "logical events (API calls executed + autograd sweeps observed); torchjd has no clock",
                "api_calls": agg_stats.get("api_calls", 0),
                "sweeps_observed": agg_stats.get("sweeps", 0),
            },
            "faults_fired": {k[6:]: v for k, v in sorted(agg_stats.items()) if k.startswith("fault.")},
            "reach_probes": {k[6:]: v for k, v in sorted(agg_stats.items()) if k.startswith("reach.")},
            "counters": {k: v for k, v in sorted(agg_stats.items()) if not k.startswith(("fault.", "reach."))},
            "distinct": {k: len(v) for k, v in sorted(sets.items())},
            "real_components": meta["REAL"],
            "stubbed_components": meta["STUBS"],
            "known_findings_hit": {kid: cnt for kid, (k, cnt) in sorted(known_hits.items())},
            "run_digest": digest([[r["index"], r["digest"]] for r in done]),
        },
        "assumptions": meta["ASSUMPTIONS"],
        "wall_s": round(wall, 3),
        "violations": len([r for r in viol_runs if any(match_known(pid, v, known) is None for v in r["violations"])]),
    }
    try:
        with cf.ProcessPoolExecutor(max_workers=1, mp_context=ctx, initializer=_worker_init, initargs=(repo_path(),)) as ex:
            evid["coverage"].update(ex.submit(_extra_job, (pid, agg_stats, sets, tier)).result(timeout=300))
    except Exception as e:  # noqa: BLE001
        print(f"HARNESS-ERROR evidence_extra failed: {e!r}")
        exit_code = exit_code or 2
    if min_info:
        evid["coverage"]["minimisation"] = min_info
    if write_evidence:
        os.makedirs(os.path.join(VERIF, "evidence"), exist_ok=True)
        with open(os.path.join(VERIF, "evidence", f"{pid}.json"), "w") as f:
            json.dump(evid, f, indent=1, sort_keys=True, default=str)
    if not quiet:
        c = evid["coverage"]
        print(
            f"done: runs={len(done)} distinct_nontrivial={len(sigs)} wall={wall:.1f}s runs/h={c['runs_per_hour']} "
            f"faults={json.dumps(c['faults_fired'])} reach={json.dumps(c['reach_probes'])}"
        )
        print(f"run_digest={c['run_digest']} exit={exit_code}")
    return exit_code, evid


def _sample_view(scn):
    """A readable, size-bounded view of a scenario for the evidence file."""
    s = json.loads(json.dumps(scn, default=str))
    txt = json.dumps(s)
    if len(txt) > 6000:
        spec = s.get("spec")
        if isinstance(spec, dict):
            for leaf in spec.get("leaves", []):
                leaf.pop("vals", None)
            for node in spec.get("nodes", []):
                if "W" in node.get("p", {}):
                    node["p"]["W"] = "<omitted>"
        txt = json.dumps(s)
        if len(txt) > 12000:
            return {"truncated": txt[:12000]}
    return s


def replay(path):
    with open(path) as f:
        rp = json.load(f)
    pid = rp["property"]
    ctx = multiprocessing.get_context("fork")
    with cf.ProcessPoolExecutor(max_workers=1, mp_context=ctx, initializer=_worker_init, initargs=(repo_path(),)) as ex:
        res = ex.submit(_replay_job, (pid, rp["scenario"])).result(timeout=600)
    same = [v for v in res["violations"] if v.get("clause") == rp["clause"]]
    print(f"replay property={pid} clause={rp['clause']} digest={res['digest']} recorded_digest={rp.get('digest')}")
    if same:
        print(f"violation: {json.dumps(same[0], default=str)[:800]}")
        print(f"VIOLATION property={pid} replay={path}")
        return 1
    if res["violations"]:
        print(f"other violations reproduced: {[v.get('clause') for v in res['violations']]}")
        print(f"VIOLATION property={pid} replay={path}")
        return 1
    print("replay: the recorded violation does not reproduce on this tree")
    return 0
