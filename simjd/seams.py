"""The seams the simulator owns. Nothing in /repo is modified: every seam is reachable from outside.

S1  iteration order of Python sets of tensors  -> torch.Tensor.__hash__ (simulator process only)
S1b insertion order of the discovered leaf set -> wrapper around torchjd.autojac.*._get_leaf_tensors
S2  the global torch RNG draws of aggregators  -> torch.randperm / rand / randn while armed
F5  numerical-kernel failures                  -> the entry points guarded by the code's own try/except
"""
import contextlib

import torch

# ----------------------------------------------------------------------------------------------
# S1: tensor hash
# ----------------------------------------------------------------------------------------------
_RANK = {}
_ORIG_HASH = torch.Tensor.__hash__
_installed = False


def _sim_hash(self):
    return _RANK.get(id(self), id(self))


def install_hash_seam():
    global _installed
    if not _installed:
        torch.Tensor.__hash__ = _sim_hash
        _installed = True


def uninstall_hash_seam():
    global _installed
    torch.Tensor.__hash__ = _ORIG_HASH
    _installed = False
    _RANK.clear()


_RUN = {"base": 0, "world": 0, "salt": 0}


def begin_run(run_seed):
    """Ranks get high bits derived from (run seed, index of the world inside the run): the low bits -- which
    decide set iteration order -- are untouched, but two tensors of different worlds or runs executed in
    the same process never share a hash (code under test that keeps tensors in dicts/caches across calls
    relies on hash/eq being consistent with identity, as it is for real tensors)."""
    _RUN["base"] = (int(run_seed) % (1 << 17)) * 128
    _RUN["world"] = 0
    _RUN["salt"] = _RUN["base"] << 36


def next_world():
    _RUN["world"] += 1
    _RUN["salt"] = (_RUN["base"] + (_RUN["world"] % 128)) << 36


def set_ranks(pairs):
    """pairs: iterable of (tensor, rank). Ranks must be unique over everything registered."""
    for t, r in pairs:
        _RANK[id(t)] = int(r) + _RUN["salt"]


def clear_ranks():
    _RANK.clear()


def effective_order(tensors):
    """Indices of `tensors` in the order a Python set built from that list iterates them."""
    idx = {id(t): i for i, t in enumerate(tensors)}
    return [idx[id(t)] for t in set(tensors)]


# ----------------------------------------------------------------------------------------------
# S1b: insertion order of the default leaf discovery
# ----------------------------------------------------------------------------------------------
class DiscoverSeam:
    """Re-inserts the discovered leaves in an order chosen by the scheduler (instead of an order
    that depends on the addresses of autograd Node objects, which no seed controls). The *content*
    of the set is whatever the real function returned."""

    def __init__(self):
        self.calls = 0
        self.reached = False

    @contextlib.contextmanager
    def armed(self, order_key):
        """order_key: function tensor -> sortable key decided by the scheduler."""
        import sys

        import torchjd.autojac  # noqa: F401

        # NB: `import torchjd.autojac.backward as B` would bind the *function* (the package
        # re-exports it under the same name); the modules are taken from sys.modules.
        mods = [sys.modules.get("torchjd.autojac.backward"), sys.modules.get("torchjd.autojac.mtl_backward")]
        patched = []
        for mod in mods:
            if mod is None:
                continue
            real = getattr(mod, "_get_leaf_tensors", None)
            if real is None:
                continue

            def wrapper(*a, __real=real, **k):
                res = __real(*a, **k)
                self.calls += 1
                self.reached = True
                if isinstance(res, set):
                    out = set()
                    for t in sorted(list(res), key=order_key):
                        out.add(t)
                    return out
                return res

            setattr(mod, "_get_leaf_tensors", wrapper)
            patched.append((mod, real))
        try:
            yield self
        finally:
            for mod, real in patched:
                setattr(mod, "_get_leaf_tensors", real)


# ----------------------------------------------------------------------------------------------
# S2: RNG draws
# ----------------------------------------------------------------------------------------------
class RngSeam:
    """While armed, torch.randperm/rand/randn return the scheduler's choices and record them."""

    def __init__(self, chooser):
        # chooser: object with randperm(n) -> list[int], rand(shape) -> flat list, randn(n) -> list
        self.chooser = chooser
        self.record = []

    @contextlib.contextmanager
    def armed(self):
        o_randperm, o_rand, o_randn = torch.randperm, torch.rand, torch.randn

        def randperm(n, *a, **k):
            perm = [int(x) for x in self.chooser.randperm(int(n))]
            self.record.append(("randperm", int(n), perm))
            return torch.tensor(perm, dtype=torch.int64)

        def rand(*size, **k):
            shape = _shape_of(size)
            n = 1
            for s in shape:
                n *= s
            vals = [float(x) for x in self.chooser.rand(n)]
            self.record.append(("rand", list(shape), vals))
            dtype = k.get("dtype", None) or torch.get_default_dtype()
            return torch.tensor(vals, dtype=torch.float64).to(dtype).reshape(shape)

        def randn(*size, **k):
            shape = _shape_of(size)
            n = 1
            for s in shape:
                n *= s
            vals = [float(x) for x in self.chooser.randn(n)]
            self.record.append(("randn", list(shape), vals))
            dtype = k.get("dtype", None) or torch.get_default_dtype()
            return torch.tensor(vals, dtype=torch.float64).to(dtype).reshape(shape)

        torch.randperm, torch.rand, torch.randn = randperm, rand, randn
        try:
            yield self
        finally:
            torch.randperm, torch.rand, torch.randn = o_randperm, o_rand, o_randn


def _shape_of(size):
    if len(size) == 1 and isinstance(size[0], (tuple, list, torch.Size)):
        return tuple(int(s) for s in size[0])
    return tuple(int(s) for s in size)


# ----------------------------------------------------------------------------------------------
# F5: numerical kernel failures at the code's own try/except sites
# ----------------------------------------------------------------------------------------------
F5_SITES = ("svd", "eigh", "pinv", "qp", "ecos", "clarabel")


class KernelFaults:
    """Arms failures of numerical kernels. `plan` maps site -> set of call indices (0-based, counted
    per site while armed) that must fail; None means 'every call'. Counts calls and fired faults."""

    def __init__(self, plan):
        self.plan = {k: (None if v is None else set(v)) for k, v in plan.items()}
        self.calls = {s: 0 for s in F5_SITES}
        self.fired = {s: 0 for s in F5_SITES}
        self.raised = []  # the exception instances injected so far

    def _mk(self, exc):
        self.raised.append(exc)
        return exc

    def in_chain(self, e):
        """Is one of the injected exceptions `e` itself or in its __cause__/__context__ chain?"""
        seen = 0
        while e is not None and seen < 20:
            if any(e is x for x in self.raised):
                return True
            e = e.__cause__ or e.__context__
            seen += 1
        return False

    def _should_fail(self, site):
        i = self.calls[site]
        self.calls[site] += 1
        if site not in self.plan:
            return False
        sel = self.plan[site]
        if sel is None or i in sel:
            self.fired[site] += 1
            return True
        return False

    @contextlib.contextmanager
    def armed(self):
        import cvxpy
        from torch.linalg import LinAlgError

        import torchjd.aggregation._dual_cone_utils as dcu

        o_svd, o_eigh, o_pinv = torch.linalg.svd, torch.linalg.eigh, torch.linalg.pinv
        o_qp = getattr(dcu, "solve_qp", None)
        o_solve = cvxpy.Problem.solve

        def svd(*a, **k):
            if self._should_fail("svd"):
                raise self._mk(LinAlgError("simjd: injected SVD non-convergence"))
            return o_svd(*a, **k)

        def eigh(*a, **k):
            if self._should_fail("eigh"):
                raise self._mk(LinAlgError("simjd: injected eigh non-convergence"))
            return o_eigh(*a, **k)

        def pinv(*a, **k):
            if self._should_fail("pinv"):
                raise self._mk(RuntimeError("simjd: injected pinv failure"))
            return o_pinv(*a, **k)

        def qp(*a, **k):
            if self._should_fail("qp"):
                return None
            return o_qp(*a, **k)

        def solve(prob, *a, **k):
            if k.get("solver", None) == cvxpy.ECOS or (a and a[0] == cvxpy.ECOS):
                if self._should_fail("ecos"):
                    raise self._mk(cvxpy.error.SolverError("simjd: injected ECOS failure"))
            if k.get("solver", None) == cvxpy.CLARABEL or (a and a[0] == cvxpy.CLARABEL):
                if self._should_fail("clarabel"):
                    raise self._mk(cvxpy.error.SolverError("simjd: injected CLARABEL failure"))
            return o_solve(prob, *a, **k)

        torch.linalg.svd, torch.linalg.eigh, torch.linalg.pinv = svd, eigh, pinv
        if o_qp is not None:
            dcu.solve_qp = qp
        cvxpy.Problem.solve = solve
        try:
            yield self
        finally:
            torch.linalg.svd, torch.linalg.eigh, torch.linalg.pinv = o_svd, o_eigh, o_pinv
            if o_qp is not None:
                dcu.solve_qp = o_qp
            cvxpy.Problem.solve = o_solve
