"""One integer decides everything: seed derivation (pure, no clock, no global state)."""
import hashlib
import random


def derive(*parts) -> int:
    h = hashlib.sha256("|".join(str(p) for p in parts).encode()).digest()
    return int.from_bytes(h[:8], "big") >> 1


def rng_for(*parts) -> random.Random:
    return random.Random(derive(*parts))


def digest(obj) -> str:
    """Stable digest of a JSON-like object (lists/dicts/str/num/bytes)."""
    h = hashlib.sha256()
    _feed(h, obj)
    return h.hexdigest()[:24]


def _feed(h, o):
    if isinstance(o, dict):
        h.update(b"{")
        for k in sorted(o.keys(), key=str):
            _feed(h, str(k))
            _feed(h, o[k])
        h.update(b"}")
    elif isinstance(o, (list, tuple)):
        h.update(b"[")
        for x in o:
            _feed(h, x)
        h.update(b"]")
    elif isinstance(o, bytes):
        h.update(b"b" + o)
    elif isinstance(o, float):
        h.update(("f" + repr(o)).encode())
    else:
        h.update(("s" + repr(o)).encode())
