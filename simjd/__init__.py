"""simjd: deterministic simulation with fault injection for TorchJD/torchjd."""
