"""Command line of simjd. Launched through /verif/bin/simjd (not `python -m`)."""
import argparse
import os
import sys


def main(argv=None):
    ap = argparse.ArgumentParser(prog="simjd")
    sub = ap.add_subparsers(dest="cmd", required=True)
    c = sub.add_parser("check")
    c.add_argument("property")
    c.add_argument("--tier", default=os.environ.get("VERIF_TIER", "quick"), choices=["quick", "thorough"])
    c.add_argument("--seed", default=os.environ.get("VERIF_SEED"))
    c.add_argument("--runs", type=int, default=None)
    c.add_argument("--workers", type=int, default=None)
    c.add_argument("--wall", type=float, default=None)
    c.add_argument("--repo", default=None)
    c.add_argument("--no-evidence", action="store_true")
    r = sub.add_parser("replay")
    r.add_argument("path")
    r.add_argument("--repo", default=None)
    s = sub.add_parser("selftest")
    s.add_argument("what", choices=["determinism", "model", "setup"])
    s.add_argument("--props", default=None)
    s.add_argument("--n", type=int, default=40)
    s.add_argument("--repo", default=None)
    args = ap.parse_args(argv)
    if getattr(args, "repo", None):
        os.environ["SIMJD_REPO"] = args.repo

    from . import runner

    if args.cmd == "check":
        seed = None
        if args.seed not in (None, ""):
            seed = int(args.seed)
        code, _ = runner.check(
            args.property, args.tier, seed=seed, workers=args.workers, n_runs=args.runs, time_cap=args.wall,
            write_evidence=not args.no_evidence,
        )
        return code
    if args.cmd == "replay":
        return runner.replay(args.path)
    if args.cmd == "selftest":
        from . import selftest

        return selftest.main(args)
    return 2


if __name__ == "__main__":
    sys.exit(main())
