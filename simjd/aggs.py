"""Aggregator specs (JSON) -> real torchjd aggregators, and NumPy reference models for some."""
import numpy as np
import torch

LINEAR = ("Constant", "Sum", "Mean")
HAS_REF = ("Constant", "Sum", "Mean", "TrimmedMean", "Krum")


def make_agg(a, dtype=torch.float64):
    import torchjd.aggregation as A

    k = a["kind"]
    tv = lambda v: None if v is None else torch.tensor(v, dtype=dtype)  # noqa: E731
    if k == "Constant":
        return A.Constant(tv(a["w"]))
    if k == "Sum":
        return A.Sum()
    if k == "Mean":
        return A.Mean()
    if k == "UPGrad":
        return A.UPGrad(pref_vector=tv(a.get("pref")), norm_eps=a.get("norm_eps", 1e-4), reg_eps=a.get("reg_eps", 1e-4))
    if k == "DualProj":
        return A.DualProj(pref_vector=tv(a.get("pref")), norm_eps=a.get("norm_eps", 1e-4), reg_eps=a.get("reg_eps", 1e-4))
    if k == "MGDA":
        return A.MGDA(epsilon=a.get("epsilon", 0.001), max_iters=a.get("max_iters", 100))
    if k == "CAGrad":
        return A.CAGrad(c=a.get("c", 0.5), norm_eps=a.get("norm_eps", 1e-4))
    if k == "IMTLG":
        return A.IMTLG()
    if k == "AlignedMTL":
        return A.AlignedMTL(pref_vector=tv(a.get("pref")))
    if k == "ConFIG":
        return A.ConFIG(pref_vector=tv(a.get("pref")))
    if k == "PCGrad":
        return A.PCGrad()
    if k == "GradDrop":
        if a.get("f") == "square":
            return A.GradDrop(f=_gd_square, leak=tv(a.get("leak")))
        if a.get("f") == "smoothstep":
            return A.GradDrop(f=_gd_smoothstep, leak=tv(a.get("leak")))
        return A.GradDrop(leak=tv(a.get("leak")))
    if k == "Random":
        return A.Random()
    if k == "TrimmedMean":
        return A.TrimmedMean(trim_number=int(a["b"]))
    if k == "Krum":
        return A.Krum(n_byzantine=int(a["f"]), n_selected=int(a.get("k", 1)))
    if k == "NashMTL":
        return A.NashMTL(
            n_tasks=int(a["n_tasks"]), max_norm=a.get("max_norm", 1.0),
            update_weights_every=int(a.get("every", 1)), optim_niter=int(a.get("niter", 20)),
        )
    if k == "Raising":
        return RaisingAggregator(a.get("exc", "ValueError"))
    raise ValueError(k)


def _gd_square(P):
    return P * P


def _gd_smoothstep(P):
    return P * P * (3.0 - 2.0 * P)


GD_F = {None: lambda p: p, "identity": lambda p: p, "square": lambda p: p * p, "smoothstep": lambda p: p * p * (3.0 - 2.0 * p)}


def matrix_form(J, form):
    """How the matrix is handed to the aggregator: contiguous, non-contiguous (transposed memory), or a
    tensor that requires grad (aggregation inside a differentiable pipeline)."""
    if form == "noncontig" and J.ndim == 2 and J.shape[0] > 1 and J.shape[1] > 1:
        return J.t().contiguous().t()
    if form == "requires_grad":
        return J.clone().requires_grad_(True)
    return J


class RaisingAggregator(torch.nn.Module):
    """Simulator-owned collaborator that refuses every Jacobian (F3)."""

    def __init__(self, exc):
        super().__init__()
        self.exc = exc

    def forward(self, matrix):
        raise {"ValueError": ValueError, "RuntimeError": RuntimeError}[self.exc]("simjd: aggregator rejects")

    def __str__(self):
        return "Raising"


class RecordingAggregator(torch.nn.Module):
    """Wraps a real aggregator and records the Jacobian it was handed (bytes are copied)."""

    def __init__(self, inner):
        super().__init__()
        self.inner = inner
        self.seen = []

    def forward(self, matrix):
        self.seen.append(matrix.detach().clone())
        return self.inner(matrix)

    def __str__(self):
        return str(self.inner)


# ----------------------------------------------------------------------------------------------
# reference models
# ----------------------------------------------------------------------------------------------
def ref_weights_linear(a, m):
    k = a["kind"]
    if k == "Constant":
        return np.array(a["w"], dtype=np.float64)
    if k == "Sum":
        return np.ones(m)
    if k == "Mean":
        return np.ones(m) / m
    raise ValueError(k)


def ref_trimmed_mean(J, b):
    """Returns (vector, margin) -- margin: smallest relative gap between a kept and a dropped order
    statistic over all columns (inf when nothing is dropped); ties make membership ambiguous but not
    the value, so margin matters only for perturbed inputs."""
    m = J.shape[0]
    S = np.sort(J, axis=0)
    kept = S[b : m - b]
    vec = kept.mean(axis=0)
    return vec


def ref_krum(J, f, k):
    """Returns (vector, selected indices, score gap margin relative)."""
    m = J.shape[0]
    D = np.sqrt(((J[:, None, :] - J[None, :, :]) ** 2).sum(-1))
    n_closest = m - f - 2
    scores = np.zeros(m)
    for i in range(m):
        others = np.delete(D[i], i)
        others.sort()
        scores[i] = others[:n_closest].sum()
    order = np.argsort(scores, kind="stable")
    sel = order[:k]
    if k < m:
        gap = scores[order[k]] - scores[order[k - 1]]
        scale = max(abs(scores).max(), 1e-300)
        margin = gap / scale
    else:
        margin = float("inf")
    vec = J[sel].mean(axis=0)
    return vec, sorted(int(i) for i in sel), margin, scores


def ref_apply(a, J, Jerr=None):
    """Reference aggregation of the model Jacobian J (float64). Jerr is an entry-wise bound on the
    error of the Jacobian the real code sees (0 when J is exact input data).
    Returns dict(vec, tol (per column: how far a correct implementation may be), ambiguous)."""
    m = J.shape[0]
    k = a["kind"]
    if Jerr is None:
        Jerr = np.zeros_like(J)
    if k in LINEAR:
        w = ref_weights_linear(a, m)
        return {"vec": w @ J, "tol": np.abs(w) @ Jerr, "ambiguous": False}
    colerr = Jerr.max(axis=0) if m else np.zeros(J.shape[1])
    if k == "TrimmedMean":
        # order statistics are 1-Lipschitz in the sup norm of a column
        return {"vec": ref_trimmed_mean(J, int(a["b"])), "tol": colerr, "ambiguous": False}
    if k == "Krum":
        f, ksel = int(a["f"]), int(a.get("k", 1))
        vec, sel, margin, scores = ref_krum(J, f, ksel)
        rowerr = float(np.sqrt((Jerr**2).sum(axis=1)).max()) if m else 0.0
        gap_abs = margin * max(float(np.abs(scores).max()), 1e-300) if np.isfinite(margin) else float("inf")
        ambiguous = bool(margin < 1e-6 or gap_abs <= 8.0 * max(1, m - f - 2) * rowerr)
        return {"vec": vec, "tol": colerr, "ambiguous": ambiguous}
    raise ValueError(f"no reference model for {k}")


def admissible(a, m):
    """Does the aggregator accept m rows?"""
    k = a["kind"]
    if k == "Constant":
        return len(a["w"]) == m
    if k in ("UPGrad", "DualProj", "AlignedMTL", "ConFIG"):
        return a.get("pref") is None or len(a["pref"]) == m
    if k == "GradDrop":
        return a.get("leak") is None or len(a["leak"]) == m
    if k == "TrimmedMean":
        return m >= 2 * int(a["b"]) + 1
    if k == "Krum":
        return m >= int(a["f"]) + 3 and m >= int(a.get("k", 1))
    if k == "NashMTL":
        return int(a["n_tasks"]) == m
    if k == "Raising":
        return False
    return True
