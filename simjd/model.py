"""Reference model: a NumPy float64 forward-mode interpreter of program specs.

For every value of the program it returns
  val   : ndarray of the value's shape
  jac   : ndarray of shape val.shape + (P,)  -- exact Jacobian w.r.t. the P independent scalars
  jabs  : ndarray of the same shape          -- running bound: the same recurrence on absolute values
  rq    : bool                               -- would the torch tensor require grad
  anc   : frozenset of leaf names / cut names this value depends on through differentiable paths

Independent scalars: all scalars of all leaves, in leaf order (row-major), followed -- when `cut` is
given -- by the scalars of the cut values (features), which are then treated as fresh variables.

It shares no code with torch.autograd nor with torchjd.
"""
import numpy as np


class Val:
    __slots__ = ("name", "val", "jac", "jabs", "vabs", "rq", "anc", "depth", "is_leaf")

    def __init__(self, name, val, jac, jabs, rq, anc, depth, is_leaf=False, vabs=None):
        self.name = name
        self.val = val
        self.jac = jac
        self.jabs = jabs
        self.vabs = np.abs(val) if vabs is None else vabs
        self.rq = rq
        self.anc = anc
        self.depth = depth
        self.is_leaf = is_leaf

    @property
    def shape(self):
        return tuple(self.val.shape)


def numel(shape):
    n = 1
    for s in shape:
        n *= s
    return n


def softplus(x):
    # the function torch computes: linear above its threshold of 20
    x = np.asarray(x, dtype=np.float64)
    return np.where(x > 20.0, x, np.logaddexp(0.0, np.minimum(x, 20.0)))


def sigmoid(x):
    # stable in both tails (0.5*(1+tanh(x/2)) cancels for very negative x)
    x = np.asarray(x, dtype=np.float64)
    e = np.exp(-np.abs(x))
    return np.where(x >= 0, 1.0 / (1.0 + e), e / (1.0 + e))


def _tanh_d(x, xa):
    t = np.tanh(x)
    d = 1.0 - t * t
    # |f'| + |f''| * (error magnitude of the argument) + cancellation in 1 - t^2
    return d, np.abs(d) + np.abs(2.0 * t * d) * xa + (1.0 + t * t) * 1.0


def _sin_d(x, xa):
    d = np.cos(x)
    return d, np.abs(d) + np.abs(np.sin(x)) * xa


def _square_d(x, xa):
    return 2.0 * x, 2.0 * np.abs(x) + 2.0 * xa


def _cube_d(x, xa):
    return 3.0 * x * x, 3.0 * x * x + 6.0 * np.abs(x) * xa


def _softplus_d(x, xa):
    s = np.where(x > 20.0, 1.0, sigmoid(x))
    # near the threshold an argument error can switch branches: the derivative jumps by 1-sigmoid(20) ~ 2e-9
    near = np.abs(x - 20.0) <= 1e-6 * (1.0 + np.abs(x)) + 1e-9 * xa
    return s, s + s * (1.0 - s) * xa + np.where(near, 1e-2, 0.0)


def _sigmoid_d(x, xa):
    s = sigmoid(x)
    d = s * (1.0 - s)
    return d, d + np.abs(d * (1.0 - 2.0 * s)) * xa + s


def _neg_d(x, xa):
    return -np.ones_like(x), np.ones_like(x)


# op -> (f, derivative-with-running-bound)
UNARY = {
    "tanh": (np.tanh, _tanh_d),
    "sin": (np.sin, _sin_d),
    "square": (lambda x: x * x, _square_d),
    "softplus": (softplus, _softplus_d),
    "neg": (lambda x: -x, _neg_d),
    "sigmoid": (sigmoid, _sigmoid_d),
    "cube": (lambda x: x * x * x, _cube_d),
}

MULTI_OUT = ("unbind", "split")


class Model:
    def __init__(self, spec, cut=()):
        self.spec = spec
        self.cut = list(cut)
        self.values = {}
        self.order = []
        self.leaf_slices = {}
        self.cut_slices = {}
        self._run()

    # ------------------------------------------------------------------
    def _run(self):
        spec = self.spec
        P = 0
        for leaf in spec["leaves"]:
            n = numel(leaf["shape"])
            self.leaf_slices[leaf["name"]] = (P, P + n)
            P += n
        self.P_leaves = P
        # cut values get their slots after the leaves; their sizes are known only after evaluation
        # of the trunk, so evaluate in two passes: sizes first (cheap shape pass == full pass w/o cut)
        if self.cut:
            base = Model(spec, cut=())
            for name in self.cut:
                n = numel(base.values[name].shape)
                self.cut_slices[name] = (P, P + n)
                P += n
        self.P = P

        for leaf in spec["leaves"]:
            shape = tuple(leaf["shape"])
            val = np.array(leaf["vals"], dtype=np.float64).reshape(shape)
            jac = np.zeros(shape + (P,))
            a, b = self.leaf_slices[leaf["name"]]
            jac.reshape(-1, P)[:, a:b] = np.eye(b - a)
            rq = bool(leaf["rg"])
            if not rq:
                jac = np.zeros(shape + (P,))
            v = Val(
                leaf["name"], val, jac, np.abs(jac), rq,
                frozenset([leaf["name"]]) if rq else frozenset(), 0, True,
            )
            self._put(v)

        for node in spec["nodes"]:
            outs = self._eval(node)
            for v in outs:
                if v.name in self.cut_slices:
                    a, b = self.cut_slices[v.name]
                    jac = np.zeros(v.shape + (P,))
                    jac.reshape(-1, P)[:, a:b] = np.eye(b - a)
                    v = Val(v.name, v.val, jac, np.abs(jac), True, frozenset([v.name]), v.depth, False, v.vabs)
                self._put(v)

    def _put(self, v):
        self.values[v.name] = v
        self.order.append(v.name)

    # ------------------------------------------------------------------
    def _eval(self, node):
        """Evaluates one node. Besides value and exact Jacobian it propagates two running bounds:
        vabs >= |val| (magnitude of the terms the value was summed from) and jabs >= |jac| (the same
        recurrence on absolute values, with value factors replaced by their vabs): a first-order
        running error analysis, so that `C * eps * jabs` bounds the error of any reasonable
        floating-point evaluation of the same chain rule, including cancellation."""
        op = node["op"]
        p = node.get("p", {})
        ins = [self.values[n] for n in node["in"]]
        outs = node["out"]
        depth = 1 + max(i.depth for i in ins)
        rq = any(i.rq for i in ins)
        anc = frozenset().union(*[i.anc for i in ins]) if rq else frozenset()
        P = self.P

        def mk(name, val, jac, jabs, vabs):
            if not rq:
                jac = np.zeros_like(jac)
                jabs = np.zeros_like(jabs)
            return Val(name, val, jac, jabs, rq, anc, depth, False, vabs)

        if op in UNARY:
            f, df = UNARY[op]
            x = ins[0]
            d, dabs = df(x.val, x.vabs)
            val = f(x.val)
            return [mk(outs[0], val, d[..., None] * x.jac, dabs[..., None] * x.jabs, np.abs(val) + np.abs(d) * x.vabs)]
        if op == "scale":
            x = ins[0]
            c = float(p["c"])
            return [mk(outs[0], c * x.val, c * x.jac, abs(c) * x.jabs, abs(c) * x.vabs)]
        if op in ("add", "sub", "mul"):
            a, b = ins
            shape = np.broadcast_shapes(a.shape, b.shape)
            av = np.broadcast_to(a.val, shape)
            bv = np.broadcast_to(b.val, shape)
            aj = np.broadcast_to(a.jac, shape + (P,))
            bj = np.broadcast_to(b.jac, shape + (P,))
            aa = np.broadcast_to(a.jabs, shape + (P,))
            ba = np.broadcast_to(b.jabs, shape + (P,))
            ava = np.broadcast_to(a.vabs, shape)
            bva = np.broadcast_to(b.vabs, shape)
            if op == "add":
                return [mk(outs[0], av + bv, aj + bj, aa + ba, ava + bva)]
            if op == "sub":
                return [mk(outs[0], av - bv, aj - bj, aa + ba, ava + bva)]
            return [
                mk(
                    outs[0],
                    av * bv,
                    aj * bv[..., None] + av[..., None] * bj,
                    aa * bva[..., None] + ava[..., None] * ba,
                    ava * bva,
                )
            ]
        if op == "lin":
            x = ins[0]
            W = np.array(p["W"], dtype=np.float64)
            shape = tuple(p["shape"])
            return [
                mk(
                    outs[0],
                    (W @ x.val.reshape(-1)).reshape(shape),
                    (W @ x.jac.reshape(-1, P)).reshape(shape + (P,)),
                    (np.abs(W) @ x.jabs.reshape(-1, P)).reshape(shape + (P,)),
                    (np.abs(W) @ x.vabs.reshape(-1)).reshape(shape),
                )
            ]
        if op in ("sum", "mean"):
            x = ins[0]
            n = max(1, x.val.size)
            c = 1.0 if op == "sum" else 1.0 / n
            axes = tuple(range(x.val.ndim))
            return [
                mk(
                    outs[0],
                    np.asarray(c * x.val.sum()),
                    c * x.jac.sum(axis=axes),
                    c * x.jabs.sum(axis=axes),
                    np.asarray(c * x.vabs.sum()),
                )
            ]
        if op == "sumdim":
            x = ins[0]
            d = int(p["dim"])
            return [mk(outs[0], x.val.sum(axis=d), x.jac.sum(axis=d), x.jabs.sum(axis=d), x.vabs.sum(axis=d))]
        if op == "reshape":
            x = ins[0]
            shape = tuple(p["shape"])
            return [
                mk(outs[0], x.val.reshape(shape), x.jac.reshape(shape + (P,)), x.jabs.reshape(shape + (P,)), x.vabs.reshape(shape))
            ]
        if op == "transpose":
            x = ins[0]
            d0, d1 = int(p["d0"]), int(p["d1"])
            sw = lambda z: np.swapaxes(z, d0, d1)  # noqa: E731
            return [mk(outs[0], sw(x.val), sw(x.jac), sw(x.jabs), sw(x.vabs))]
        if op == "slice":
            x = ins[0]
            d = int(p["dim"])
            idx = [slice(None)] * x.val.ndim
            idx[d] = slice(int(p["start"]), int(p["stop"]))
            idx = tuple(idx)
            return [mk(outs[0], x.val[idx], x.jac[idx], x.jabs[idx], x.vabs[idx])]
        if op == "cat":
            d = int(p["dim"])
            cc = lambda zs: np.concatenate(zs, axis=d)  # noqa: E731
            return [mk(outs[0], cc([i.val for i in ins]), cc([i.jac for i in ins]), cc([i.jabs for i in ins]), cc([i.vabs for i in ins]))]
        if op == "stack":
            st = lambda zs: np.stack(zs, axis=0)  # noqa: E731
            return [mk(outs[0], st([i.val for i in ins]), st([i.jac for i in ins]), st([i.jabs for i in ins]), st([i.vabs for i in ins]))]
        if op == "outer":
            a, b = ins
            val = np.outer(a.val, b.val)
            jac = a.jac[:, None, :] * b.val[None, :, None] + a.val[:, None, None] * b.jac[None, :, :]
            jabs = a.jabs[:, None, :] * b.vabs[None, :, None] + a.vabs[:, None, None] * b.jabs[None, :, :]
            return [mk(outs[0], val, jac, jabs, np.outer(a.vabs, b.vabs))]
        if op == "matmul":
            a, b = ins
            return [mk(outs[0], *_matmul(a, b, P))]
        if op == "unbind":
            x = ins[0]
            d = int(p["dim"])
            res = []
            for k, name in enumerate(outs):
                tk = lambda z: np.take(z, k, axis=d)  # noqa: E731
                res.append(mk(name, tk(x.val), tk(x.jac), tk(x.jabs), tk(x.vabs)))
            return res
        if op == "split":
            x = ins[0]
            d = int(p["dim"])
            sizes = [int(s) for s in p["sizes"]]
            res = []
            start = 0
            for name, s in zip(outs, sizes):
                idx = [slice(None)] * x.val.ndim
                idx[d] = slice(start, start + s)
                idx = tuple(idx)
                res.append(mk(name, x.val[idx], x.jac[idx], x.jabs[idx], x.vabs[idx]))
                start += s
            return res
        if op == "take":
            x = ins[0]
            idx = np.array(p["idx"], dtype=np.int64)
            return [mk(outs[0], x.val.reshape(-1)[idx], x.jac.reshape(-1, P)[idx], x.jabs.reshape(-1, P)[idx], x.vabs.reshape(-1)[idx])]
        if op == "where":
            a, b = ins
            mask = np.array(p["mask"], dtype=bool).reshape(a.shape)
            return [
                mk(outs[0], np.where(mask, a.val, b.val), np.where(mask[..., None], a.jac, b.jac), np.where(mask[..., None], a.jabs, b.jabs), np.where(mask, a.vabs, b.vabs))
            ]
        if op == "detach":
            x = ins[0]
            return [
                Val(outs[0], x.val.copy(), np.zeros_like(x.jac), np.zeros_like(x.jabs), False, frozenset(), depth, False, x.vabs.copy())
            ]
        if op == "cast":
            # conversion to the other float dtype and the graph goes on there: identity in the model (the
            # rounding it introduces is covered by using float32's eps for the whole program)
            x = ins[0]
            return [mk(outs[0], x.val.copy(), x.jac.copy(), x.jabs.copy(), x.vabs.copy())]
        if op == "probe":
            x = ins[0]
            return [mk(outs[0], x.val.copy(), x.jac.copy(), x.jabs.copy(), x.vabs.copy())]
        raise ValueError(f"unknown op {op}")

    # ------------------------------------------------------------------
    def stats(self):
        vmax = 0.0
        depth = 0
        for v in self.values.values():
            if v.val.size:
                vmax = max(vmax, float(np.abs(v.val).max()))
            depth = max(depth, v.depth)
        return {"vmax": vmax, "depth": depth}

    def jac_rows(self, out_names, col_leaves):
        """Jacobian (rows: scalars of out_names flattened in order; cols: scalars of col_leaves in
        order) and the matching running bound."""
        cols = []
        for name in col_leaves:
            if name in self.leaf_slices:
                a, b = self.leaf_slices[name]
            else:
                a, b = self.cut_slices[name]
            cols.extend(range(a, b))
        rows = []
        rows_abs = []
        for name in out_names:
            v = self.values[name]
            rows.append(v.jac.reshape(-1, self.P)[:, cols])
            rows_abs.append(v.jabs.reshape(-1, self.P)[:, cols])
        if not rows:
            return np.zeros((0, len(cols))), np.zeros((0, len(cols)))
        return np.concatenate(rows, axis=0), np.concatenate(rows_abs, axis=0)


def _matmul(a, b, P):
    av, bv = a.val, b.val
    a1 = av.ndim == 1
    b1 = bv.ndim == 1
    A = av[None, :] if a1 else av
    B = bv[:, None] if b1 else bv
    AV = a.vabs[None, :] if a1 else a.vabs
    BV = b.vabs[:, None] if b1 else b.vabs
    AJ = a.jac[None, :, :] if a1 else a.jac  # (r, k, P)
    BJ = b.jac[:, None, :] if b1 else b.jac  # (k, c, P)
    AA = a.jabs[None, :, :] if a1 else a.jabs
    BA = b.jabs[:, None, :] if b1 else b.jabs
    val = A @ B
    vabs = AV @ BV
    jac = np.einsum("rkp,kc->rcp", AJ, B) + np.einsum("rk,kcp->rcp", A, BJ)
    jabs = np.einsum("rkp,kc->rcp", AA, BV) + np.einsum("rk,kcp->rcp", AV, BA)
    if a1:
        val, jac, jabs, vabs = val[0], jac[0], jabs[0], vabs[0]
        if b1:
            val, jac, jabs, vabs = val[0], jac[0], jabs[0], vabs[0]
    elif b1:
        val, jac, jabs, vabs = val[:, 0], jac[:, 0], jabs[:, 0], vabs[:, 0]
    return val, jac, jabs, vabs
