"""Shared generators of call configurations for the autojac properties."""
from .model import numel


def gen_weights(rng, m):
    """Distinct weights incl. negatives and zeros (row-order- and slice-sensitive)."""
    pool = [k / 4.0 for k in range(-8, 9)]
    rng.shuffle(pool)
    w = []
    for i in range(m):
        w.append(pool[i % len(pool)] + (i // len(pool)) * 0.125)
    if m >= 2 and rng.random() < 0.4:
        w[rng.randrange(m)] = 0.0
    return w


def gen_pref(rng, m):
    return [rng.choice([0.25, 0.5, 1.0, 1.5, 2.0, 3.0]) + 0.01 * i for i in range(m)]


def gen_det_agg(rng, m, dtype, linear_only=False, families=None):
    """A deterministic aggregator admissible for m rows."""
    fams = ["Constant", "Constant", "Constant", "Sum", "Mean"]
    if not linear_only and dtype == "float64":
        fams += ["UPGrad", "UPGrad"]
        if m >= 3:
            fams += ["TrimmedMean", "TrimmedMean"]
        if m >= 3:
            fams += ["Krum", "Krum"]
    if families is not None:
        fams = [f for f in fams if f in families] or ["Constant"]
    k = rng.choice(fams)
    if k == "Constant":
        return {"kind": "Constant", "w": gen_weights(rng, m)}
    if k in ("Sum", "Mean"):
        return {"kind": k}
    if k == "UPGrad":
        return {"kind": "UPGrad", "pref": gen_pref(rng, m) if rng.random() < 0.8 else None}
    if k == "TrimmedMean":
        return {"kind": "TrimmedMean", "b": rng.randint(0 if rng.random() < 0.2 else 1, (m - 1) // 2)}
    if k == "Krum":
        f = rng.randint(0, m - 3)
        return {"kind": "Krum", "f": f, "k": rng.randint(1, max(1, m - f - 2))}
    raise AssertionError(k)


def gen_chunk(rng, m):
    opts = [None, None, 1, 1, 2, 3, m, m + 2, max(1, m - 1), max(1, (m + 1) // 2)]
    return rng.choice(opts)


def gen_pre_grads(rng, spec, p=0.35):
    """Arbitrary pre-existing .grad content on some leaves (F8: state left by earlier steps)."""
    pre = {}
    for leaf in spec["leaves"]:
        if leaf["rg"] and rng.random() < p:
            pre[leaf["name"]] = [rng.randint(-24, 24) / 8.0 for _ in range(numel(leaf["shape"]))]
    return pre


def apply_pre_grads(world, pre):
    import torch

    n = 0
    for name, vals in pre.items():
        if name in world.t and world.t[name].is_leaf and world.t[name].requires_grad:
            x = world.t[name]
            g = torch.tensor(vals, dtype=world.dtype).reshape(x.shape).clone()
            if g.ndim >= 2 and (len(vals) + int(abs(vals[0]) * 8)) % 3 == 0:
                g = g.transpose(0, -1).contiguous().transpose(0, -1)  # a non-contiguous pre-existing .grad
            x.grad = g
            n += 1
    return n


def op_sig(spec):
    return [n["op"] for n in spec["nodes"]] + [tuple(leaf["shape"]) for leaf in spec["leaves"]]


def count_sweeps(events):
    return len([e for e in events if e[0] == "sweep"])
