"""C19 -- NashMTL's state: reset() means fresh, weights are reused as scheduled (history simulation)."""
import contextlib
import copy

import numpy as np
import torch

from ..seeds import digest

ID = "C19"
LEVEL = "exploration"
N_EXH = 4 + 16 + 64 + 256 + 1024  # histories of length 1..5 over an alphabet of 3 matrices + reset
CONFIGS = [(k, mn) for k in (1, 2, 3, 4) for mn in (0.0, 0.5, 1.0)]
BUDGET = {
    "quick": {"runs": 1000, "wall": 420, "chunk": 5, "per_run_cap": 240},
    "thorough": {"runs": N_EXH * len(CONFIGS) + 8000, "wall": 3400, "chunk": 20, "per_run_cap": 240},
}
RULE = (
    "a run = one NashMTL instance (update_weights_every k in 1..4, max_norm in {0,0.5,1}, optim_niter in "
    "{5,20}), an alphabet of 3 well-conditioned matrices with 2..5 rows, and a history over {matrix_0..2, "
    "reset}; thorough tier: run indices enumerate ALL histories of length 1..5 for each of the 12 (k,max_norm) "
    "configurations (1364 each), then random histories of length 6..12; quick tier: random histories of length "
    "1..9. Odd run indices additionally inject ECOS failures (SolverError, or a return without variable values as for an "
    "infeasible/unbounded status) at seeded (call-since-reset, solver-iteration) keys. Oracles: every call returns; after each reset the remaining segment equals, bitwise, a newly "
    "constructed instance fed the same segment (same fault keys); the solver seam is entered on calls 0,k,2k,.. "
    "since reset and never on the others, and on those calls it is handed the data of the current matrix "
    "(every problem parameter a fresh instance passes for that matrix, warm start excepted); the alphabet "
    "sometimes contains a power-of-two multiple of another matrix; reuse calls return the weights of a k=1 reference instance fed only "
    "the recompute calls; norm <= max_norm. Non-trivial: history contains a reset after >=1 call, or a reuse "
    "call; distinct = (k, max_norm, niter, history symbols, fault keys)."
)
REAL = ["torchjd.aggregation.NashMTL (_NashMTLWeighting state machine)", "cvxpy problem construction and ECOS solver (except at injected failures)"]
STUBS = ["cvxpy.Problem.solve wrapper: counts solver entries per call and raises SolverError at scheduled keys (F5 at the code's own try/except)"]
ASSUMPTIONS = [
    "ECOS through cvxpy is bitwise reproducible for identical problem data and warm-start history within one process (re-verified by `simjd selftest determinism`)",
    "matrices are well-conditioned (entries O(1), distinct random rows) as the property's quantifier states",
    "reuse-call outputs are compared with alpha_ref @ J within 1e-6 relative (dtype conversion path may differ), everything else bitwise",
    "the norm bound is asserted up to the rounding of the final weights @ J product: 64*(m+n)*eps*|| |weights| @ |J| || (weights observed through a forward hook on aggregator.weighting)",
]


def _matrix(rng, m, n):
    return [[round(rng.uniform(-2.0, 2.0), 3) for _ in range(n)] for _ in range(m)]


def _history_from_index(h):
    """h in [0, N_EXH): the h-th history over symbols 0,1,2,'R' of length 1..5."""
    length = 1
    base = 4
    while h >= base**length:
        h -= base**length
        length += 1
    syms = []
    for _ in range(length):
        syms.append(h % base)
        h //= base
    return [("R" if s == 3 else s) for s in syms]


def generate(rng, tier, index):
    m = rng.choice([2, 2, 3, 3, 4, 5])
    alphabet = [_matrix(rng, m, rng.choice([m, m + 1, m + 3, 7])) for _ in range(3)]
    if rng.random() < 0.3:
        # loss scaling: one matrix is an exact power-of-two multiple of another
        c = rng.choice([0.25, 0.5, 2.0, 4.0, 8.0])
        alphabet[1] = [[c * v for v in row] for row in alphabet[0]]
    dtype = "float32" if rng.random() < 0.5 else "float64"
    if tier == "thorough" and index < N_EXH * len(CONFIGS):
        k, mn = CONFIGS[index // N_EXH]
        hist = _history_from_index(index % N_EXH)
        niter = 20 if (index % 2 == 0) else 5
    else:
        k, mn = rng.choice(CONFIGS)
        niter = rng.choice([1, 5, 20])
        lo, hi = (1, 9) if tier == "quick" else (6, 12)
        length = rng.randint(lo, hi)
        hist = [rng.choice([0, 1, 2, 0, 1, 2, "R"]) for _ in range(length)]
    faults = []
    if index % 2 == 1:
        nf = rng.choice([1, 1, 2, 3])
        for _ in range(nf):
            faults.append([rng.randint(0, 4), rng.randint(0, 3), rng.choice(["raise", "raise", "no_value"])])
    return {"params": {"n_tasks": m, "every": k, "max_norm": mn, "niter": niter, "dtype": dtype}, "alphabet": alphabet, "history": hist, "ecos_faults": faults}


class SolveSeam:
    """Owns cvxpy.Problem.solve while armed: counts solver entries, fails at scheduled keys."""

    def __init__(self, fault_keys):
        # key -> kind: "raise" (SolverError) or "no_value" (the solver returns with an infeasible/unbounded
        # status and leaves the variables without a value, as ECOS really does on some inputs)
        self.fault_keys = {(int(f[0]), int(f[1])): (f[2] if len(f) > 2 else "raise") for f in fault_keys}
        self.call_since_reset = 0
        self.iteration = 0
        self.entries_this_call = 0
        self.fired = 0
        self.fired_no_value = 0
        self.reached = False
        self.first_solve_params = None

    def begin_call(self, call_since_reset):
        self.call_since_reset = call_since_reset
        self.iteration = 0
        self.entries_this_call = 0
        self.first_solve_params = None

    @contextlib.contextmanager
    def armed(self):
        import cvxpy

        real = cvxpy.Problem.solve
        seam = self

        def solve(prob, *a, **k):
            seam.reached = True
            if seam.iteration == 0:
                # what the solver is given at the first solve of this call: every cvxpy Parameter of the problem
                try:
                    seam.first_solve_params = sorted(
                        (tuple(int(d) for d in q.shape), np.asarray(q.value, dtype=np.float64).tobytes()) for q in prob.parameters() if q.value is not None
                    )
                except Exception:  # noqa: BLE001
                    seam.first_solve_params = None
            key = (seam.call_since_reset, seam.iteration)
            seam.iteration += 1
            seam.entries_this_call += 1
            if key in seam.fault_keys:
                seam.fired += 1
                if seam.fault_keys[key] == "no_value":
                    seam.fired_no_value += 1
                    for var in prob.variables():
                        var.value = None
                    return None
                raise cvxpy.error.SolverError("simjd: injected ECOS failure")
            return real(prob, *a, **k)

        cvxpy.Problem.solve = solve
        try:
            yield self
        finally:
            cvxpy.Problem.solve = real


def _make(params, every=None):
    from torchjd.aggregation import NashMTL

    return NashMTL(
        n_tasks=params["n_tasks"], max_norm=params["max_norm"],
        update_weights_every=params["every"] if every is None else every, optim_niter=params["niter"],
    )


def _run_segment(A, mats, seam, start_call=0):
    """Feeds matrices to A; returns list of (bytes or None, exc, solver entries, vector, rounding slack)."""
    res = []
    seen = []
    handle = None
    if hasattr(A, "weighting") and isinstance(A.weighting, torch.nn.Module):
        # observe (not alter) the weights of each call: needed to bound the rounding of weights @ J
        handle = A.weighting.register_forward_hook(lambda mod, inp, out: seen.append(out.detach().to(torch.float64).abs().numpy().copy()))
    for i, J in enumerate(mats):
        seam.begin_call(start_call + i)
        del seen[:]
        try:
            out = A(J)
            eps = 1.1920929e-07 if J.dtype == torch.float32 else 2.220446049250313e-16
            slack = None
            if seen and seen[-1].shape == (J.shape[0],):
                slack = 64.0 * (J.shape[0] + J.shape[1]) * eps * float(np.linalg.norm(seen[-1] @ J.detach().to(torch.float64).abs().numpy()))
            res.append((out.detach().numpy().tobytes(), None, seam.entries_this_call, out.detach().to(torch.float64).numpy().copy(), slack, seam.first_solve_params))
        except Exception as e:  # noqa: BLE001
            res.append((None, f"{type(e).__name__}: {str(e)[:200]}", seam.entries_this_call, None, None, None))
    if handle is not None:
        handle.remove()
    return res


def execute(scn):
    p = scn["params"]
    dtype = torch.float32 if p["dtype"] == "float32" else torch.float64
    mats = [torch.tensor(M, dtype=dtype) for M in scn["alphabet"]]
    hist = scn["history"]
    k = int(p["every"])
    stats, events, viols, sets = {}, [], [], {}
    seam = SolveSeam(scn.get("ecos_faults", []))
    # split into segments by reset
    segments = [[]]
    for s in hist:
        if s == "R":
            segments.append([])
        else:
            segments[-1].append(int(s))
    with seam.armed():
        A = _make(p)
        outs = []
        for si, seg in enumerate(segments):
            if si > 0:
                A.reset()
                stats["fault.reset_F9"] = stats.get("fault.reset_F9", 0) + 1
            r = _run_segment(A, [mats[j] for j in seg], seam)
            outs.append(r)
            stats["api_calls"] = stats.get("api_calls", 0) + len(seg)
        stats["fault.ecos_failure_F5"] = seam.fired
        stats["fault.ecos_no_value_F5"] = seam.fired_no_value
        fired_main = seam.fired
        # ---- oracle: every call returns; solver schedule; norm bound
        for si, seg in enumerate(segments):
            for ci, j in enumerate(seg):
                b, exc, entries, vec, slack, _params = outs[si][ci]
                events.append([si, ci, j, exc, entries, None if b is None else digest(b)])
                if exc is not None:
                    viols.append({"clause": "call_raised", "step": [si, ci], "details": {"exc": exc, "call_since_reset": ci, "every": k, "reuse_call": ci % k != 0}, "key": {"reuse_call": ci % k != 0, "exc": exc.split(":")[0]}})
                    continue
                recompute = ci % k == 0
                if recompute and entries == 0 and seam.reached:
                    viols.append({"clause": "weights_not_recomputed_on_schedule", "step": [si, ci], "details": {"call_since_reset": ci, "every": k}, "key": {}})
                if (not recompute) and entries > 0:
                    viols.append({"clause": "solver_entered_on_reuse_call", "step": [si, ci], "details": {"call_since_reset": ci, "every": k, "entries": entries}, "key": {}})
                if not recompute:
                    stats["reach.reuse_call"] = stats.get("reach.reuse_call", 0) + 1
                if not np.all(np.isfinite(vec)):
                    viols.append({"clause": "nonfinite_output", "step": [si, ci], "details": {}, "key": {}})
                elif p["max_norm"] > 0 and float(np.linalg.norm(vec)) > p["max_norm"] * (1 + 1e-6) + (slack if slack is not None else 1e-4 * p["max_norm"]) + 1e-12:
                    viols.append({"clause": "norm_exceeds_max_norm", "step": [si, ci], "details": {"norm": float(np.linalg.norm(vec)), "max_norm": p["max_norm"]}, "key": {}})
        if any(v["clause"] == "call_raised" for v in viols):
            return _result(scn, viols, events, stats, sets, segments, k)
        # ---- oracle: after reset == fresh instance (bitwise), for every segment after a reset
        for si, seg in enumerate(segments):
            if si == 0 or not seg:
                continue
            if any(len(s2) > 0 for s2 in segments[:si]):
                stats["reach.reset_after_calls"] = stats.get("reach.reset_after_calls", 0) + 1
            fresh = _make(p)
            r = _run_segment(fresh, [mats[j] for j in seg], seam)
            for ci in range(len(seg)):
                if r[ci][0] != outs[si][ci][0]:
                    d = None
                    if r[ci][3] is not None and outs[si][ci][3] is not None:
                        d = float(np.abs(r[ci][3] - outs[si][ci][3]).max())
                    viols.append({"clause": "reset_differs_from_fresh_instance", "step": [si, ci], "details": {"segment": si, "call": ci, "max_abs_diff": d, "fresh_exc": r[ci][1]}, "key": {}})
                    break
        # ---- oracle: a recompute call hands the solver the data of the CURRENT matrix. Differential at the
        # solver seam: every problem parameter a fresh instance passes for this matrix -- except the warm
        # start, the only vector of length n_tasks -- must be among the parameters this instance passes.
        m_tasks = int(p["n_tasks"])
        checked = 0
        for si, seg in enumerate(segments):
            for ci, j in enumerate(seg):
                if ci % k != 0 or ci == 0 or checked >= 3:
                    continue
                mine = outs[si][ci][5]
                if not mine:
                    continue
                fresh = _make(p)
                saved_keys = seam.fault_keys
                seam.fault_keys = {}
                try:
                    rf = _run_segment(fresh, [mats[j]], seam)
                finally:
                    seam.fault_keys = saved_keys
                theirs = rf[0][5]
                if not theirs:
                    continue
                checked += 1
                stats["reach.solver_input_compared_with_fresh_instance"] = stats.get("reach.solver_input_compared_with_fresh_instance", 0) + 1
                missing = [q for q in theirs if q[0] != (m_tasks,) and q not in mine]
                if missing:
                    viols.append({"clause": "recompute_call_solves_stale_problem_data", "step": [si, ci], "details": {"call_since_reset": ci, "every": k, "parameter_shapes_that_differ_from_a_fresh_instance_on_the_same_matrix": [list(q[0]) for q in missing]}, "key": {}})
                    break
        # ---- oracle: reuse calls return the last computed weights (k=1 reference fed the recompute calls)
        if k > 1:
            for si, seg in enumerate(segments):
                if len(seg) < 2:
                    continue
                ref = _make({**p, "max_norm": 0.0}, every=1)  # max_norm=0: weighting() returns raw weights
                last_alpha = None
                for ci, j in enumerate(seg):
                    J = mats[j]
                    if ci % k == 0:
                        # same fault keys as the main instance saw on this call
                        seam.begin_call(ci)
                        last_alpha = ref.weighting(J).detach().clone()
                    else:
                        alpha = last_alpha
                        if p["max_norm"] > 0:
                            nrm = torch.linalg.norm(alpha @ J)
                            if nrm > p["max_norm"]:
                                alpha = alpha / nrm * p["max_norm"]
                        expv = (alpha @ J).to(torch.float64).numpy()
                        got = outs[si][ci][3]
                        scale = float(np.abs(expv).max()) + 1e-30
                        if got is None or float(np.abs(got - expv).max()) > 1e-5 * scale + 1e-12:
                            viols.append({"clause": "reuse_call_does_not_reuse_weights", "step": [si, ci], "details": {"call_since_reset": ci, "every": k, "max_abs_diff": None if got is None else float(np.abs(got - expv).max())}, "key": {}})
                            break
    stats["fault.ecos_failure_F5"] = fired_main
    if fired_main:
        stats["reach.ecos_except_branch"] = 1
    return _result(scn, viols, events, stats, sets, segments, k)


def _result(scn, viols, events, stats, sets, segments, k):
    p = scn["params"]
    hist = scn["history"]
    sig = digest([p["every"], p["max_norm"], p["niter"], p["n_tasks"], hist, scn.get("ecos_faults", [])])
    sets["history_shape"] = ["".join("R" if s == "R" else "m" for s in hist)]
    sets["config"] = [f"k={p['every']},max_norm={p['max_norm']},niter={p['niter']},m={p['n_tasks']},{p['dtype']}"]
    nontrivial = any(len(s) > k - 1 and k > 1 for s in segments) or (len(segments) > 1 and any(len(s) > 0 for s in segments[:-1]) and len(segments[-1]) > 0)
    uniq = {}
    for v in viols:
        uniq.setdefault(v["clause"], v)
    return {"violations": list(uniq.values()), "events": events, "stats": stats, "sets": sets, "sig": sig, "nontrivial": bool(nontrivial)}


def evidence_extra(agg_stats, sets, tier):
    return {
        "exhaustive_part": (
            f"thorough tier enumerates all {N_EXH} histories of length<=5 over (3 matrices + reset) for each of {len(CONFIGS)} (k,max_norm) configurations"
            if tier == "thorough" else "quick tier samples histories; the exhaustive stratum is in the thorough tier"
        ),
        "distinct_history_shapes": len(sets.get("history_shape", [])),
        "configurations_seen": len(sets.get("config", [])),
    }


def shrink(scn):
    hist = scn["history"]
    for i in range(len(hist)):
        s = copy.deepcopy(scn)
        del s["history"][i]
        if s["history"]:
            yield s
    if scn.get("ecos_faults"):
        for i in range(len(scn["ecos_faults"])):
            s = copy.deepcopy(scn)
            del s["ecos_faults"][i]
            yield s
    for i, sym in enumerate(hist):
        if sym not in ("R", 0):
            s = copy.deepcopy(scn)
            s["history"][i] = 0
            yield s
    p = scn["params"]
    if p["dtype"] != "float64":
        s = copy.deepcopy(scn)
        s["params"]["dtype"] = "float64"
        yield s
    if p["max_norm"] != 0.0:
        s = copy.deepcopy(scn)
        s["params"]["max_norm"] = 0.0
        yield s
    if p["every"] > 2:
        s = copy.deepcopy(scn)
        s["params"]["every"] = 2
        yield s
