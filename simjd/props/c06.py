"""C06 -- gradients accumulate; nothing but the requested .grad fields is touched (history simulation)."""
import copy
import json

import numpy as np
import torch

from ..aggs import make_agg
from ..autogen import count_sweeps, gen_chunk, gen_det_agg, op_sig
from ..model import Model, numel
from ..seeds import digest
from ..shrinkspec import spec_candidates
from ..spec import gen_mtl, gen_program, pick_outputs
from ..world import spec_eps, EPS, World, compare, expect_backward, expect_mtl, gen_sched, run_call, tensor_bytes
from . import c02 as C02

ID = "C06"
LEVEL = "exploration"
BUDGET = {
    "quick": {"runs": 2600, "wall": 300, "chunk": 20},
    "thorough": {"runs": 100000, "wall": 3400, "chunk": 100},
}
FAMS = ["Constant", "Sum", "Mean", "UPGrad", "TrimmedMean"]
RULE = (
    "a run = one world (free-form or trunk/heads program) and a history of 3..8 steps drawn from: backward(cfg), "
    "mtl_backward(cfg) (each with its own tensors/inputs/aggregator/chunk, on retained graphs; the last call may "
    "free the graph), grad.zero_(), grad=None, grad.mul_(c), grad.add_(noise), preload of arbitrary content, "
    "'repeat the previous call k times'. A model keeps the expected .grad of every leaf. After EVERY step: (1) "
    "each leaf's .grad equals the model in None-ness and value; (2) the bytes of all world tensors and of the "
    "aggregator's own tensors are unchanged; (3) the .grad of every tensor that is not a requested parameter is "
    "the same object with the same bytes; (4) a .grad created by the step owns its storage and overlaps no "
    "other tensor. Non-trivial: >=2 API calls of which one accumulates into an existing .grad; distinct = digest "
    "of (ops, shapes, step kinds, None-ness signature after each step)."
)
REAL = ["torchjd.autojac.backward / mtl_backward (Accumulate in particular)", "torchjd.aggregation (Constant/Sum/Mean/UPGrad/TrimmedMean)", "torch.autograd"]
STUBS = ["torch.Tensor.__hash__ (S1 seam)", ".grad tampering steps are the simulator playing optimizer/clipping code (F8)"]
ASSUMPTIONS = [
    "reference model as in C01/C02; tolerance accumulates over the steps",
    "storage ownership is observed through untyped_storage().nbytes(), storage_offset() and data_ptr ranges",
    "no retain_grad() tensors (documented limitation)",
]


def _gen_backward_step(rng, spec, g_shape, cands, rg, dtype, retain):
    k = rng.choice([1, 1, 2, 3])
    outs = []
    rows = 0
    pool = list(cands)
    rng.shuffle(pool)
    for n in pool:
        if len(outs) >= k:
            break
        if rows + numel(g_shape[n]) <= 8:
            outs.append(n)
            rows += numel(g_shape[n])
    if not outs:
        return None
    inputs = rng.sample(rg, rng.randint(1, len(rg))) if rng.random() < 0.75 else None
    if inputs is not None and all(numel(g_shape[n]) == 0 for n in inputs):
        # a Jacobian without columns is outside the scope (DESIGN: 0-row/0-column Jacobians excluded)
        others = [n for n in rg if numel(g_shape[n]) > 0]
        if not others:
            return None
        inputs.insert(rng.randint(0, len(inputs)), rng.choice(others))
    from ..world import gen_forms

    return {
        "op": "call",
        "call": {"api": "backward", "tensors": outs, "inputs": inputs, "agg": gen_det_agg(rng, rows, dtype, families=FAMS), "chunk": gen_chunk(rng, rows), "retain": retain, "forms": gen_forms(rng)},
    }


def generate(rng, tier, index):
    dtype = "float64" if rng.random() < 0.75 else "float32"
    is_mtl = rng.random() < 0.45
    if is_mtl:
        r = gen_mtl(rng, dtype)
        if r is None:
            return None
        spec, roles, g = r
    else:
        spec, g = gen_program(rng, dtype)
        roles = None
        if rng.random() < 0.15:
            # a 0-element parameter (e.g. the weight of Linear(0, n)): once requested, its .grad must be created
            # (empty, of its shape) like any other
            spec = copy.deepcopy(spec)
            spec["leaves"].append({"name": "z0", "shape": [0], "rg": True, "vals": []})
    model = Model(spec)
    cands = [o for n in spec["nodes"] for o in n["out"] if model.values[o].rq and numel(model.values[o].shape) >= 1]
    rg = [leaf["name"] for leaf in spec["leaves"] if leaf["rg"]]
    if not cands or not rg:
        return None
    shape = {k: v.shape for k, v in model.values.items()}
    n_steps = rng.randint(3, 8)
    steps = []
    for si in range(n_steps):
        last = si == n_steps - 1
        retain = not (last and rng.random() < 0.5)
        r = rng.random()
        if r < 0.5 or si == 0:
            if is_mtl and rng.random() < 0.6:
                call = C02.gen_mtl_call(rng, spec, roles, dtype, model=model, families=FAMS)
                call["retain"] = retain
                C02.fix_retain(spec, call, model)
                steps.append({"op": "call", "call": call})
            else:
                st = _gen_backward_step(rng, spec, shape, cands, rg, dtype, retain)
                if st is None:
                    return None
                steps.append(st)
        elif r < 0.6 and any(s["op"] == "call" for s in steps) and not last:
            steps.append({"op": "repeat", "k": rng.choice([2, 2, 3])})
        else:
            leaf = rng.choice(rg)
            kind = rng.choice(["zero", "none", "mul", "add", "preload"])
            st = {"op": kind, "leaf": leaf}
            if kind == "mul":
                st["c"] = rng.choice([0.5, -1.0, 2.0, 0.25])
            if kind in ("add", "preload"):
                st["vals"] = [rng.randint(-16, 16) / 8.0 for _ in range(numel(shape[leaf]))]
            if kind == "preload":
                st["noncontig"] = rng.random() < 0.5
            steps.append(st)
    # only the last call may free the graph
    return {"spec": spec, "roles": roles, "steps": steps, "sched": gen_sched(rng, spec)}


def _agg_tensors(agg):
    """The aggregator's own configuration tensors: (module path, attribute) -> tensor."""
    out = {}
    for mname, mod in agg.named_modules():
        for k, v in vars(mod).items():
            if isinstance(v, torch.Tensor):
                out[(mname, k)] = v
        for k, v in list(mod._parameters.items()) + list(mod._buffers.items()):
            if isinstance(v, torch.Tensor):
                out[(mname, k)] = v
    return out


def execute(scn):
    spec = scn["spec"]
    eps = spec_eps(spec)
    model = Model(spec)
    cut_cache = {}
    world = World(spec, scn["sched"])
    stats, events, viols, sets = {}, [], [], {}
    agg_cache = {}  # like user code: one aggregator object per configuration, reused by every call of the history
    exp_grad = {n: None for n in world.leaf_names}  # model of .grad
    exp_tol = {n: None for n in world.leaf_names}
    values_before = world.values_bytes()
    last_call = None
    signature = []
    n_calls = 0
    accumulated_into_existing = False

    def do_call(call, si):
        nonlocal n_calls, accumulated_into_existing
        from ..world import require_valid

        require_valid(model, call)
        if call["api"] == "backward":
            exp = expect_backward(model, call, eps)
            updates = dict(exp["updates"])
            ambiguous = exp["ambiguous"]
        else:
            key = tuple(call["features"])
            if key not in cut_cache:
                cut_cache[key] = Model(spec, cut=call["features"])
            exp = expect_mtl(model, cut_cache[key], call, eps)
            updates = dict(exp["shared_updates"])
            updates.update(exp["task_updates"])
            ambiguous = exp["ambiguous"]
        requested = list(updates.keys())
        if any(np.size(updates[n][0]) == 0 for n in requested):
            stats["reach.zero_element_parameter_requested"] = stats.get("reach.zero_element_parameter_requested", 0) + 1
        before = world.grads()
        kept_before = list(world._keep)  # every .grad tensor object ever observed in this world (all kept alive)
        akey = json.dumps(call["agg"], sort_keys=True)
        if akey in agg_cache:
            stats["reach.aggregator_instance_reused_across_steps"] = stats.get("reach.aggregator_instance_reused_across_steps", 0) + 1
        else:
            agg_cache[akey] = make_agg(call["agg"], world.dtype)
        agg = agg_cache[akey]
        agg_before = {k: (t, tensor_bytes(t)) for k, t in _agg_tensors(agg).items()}
        world.log.clear()
        out, _ = run_call(world, call, agg=agg)
        n_calls += 1
        stats["api_calls"] = stats.get("api_calls", 0) + 1
        stats["sweeps"] = stats.get("sweeps", 0) + count_sweeps(world.log.events)
        events.append([si, "call", out["ok"], out["exc"]])
        if not out["ok"]:
            viols.append({"clause": "valid_call_raised", "step": si, "details": out, "key": {"exc": out["exc"], "msg": (out.get("msg") or "")[:40]}})
            return False
        after = world.grads()
        # (2) aggregator's own tensors
        # tensors the aggregator was configured with must keep their bytes (new cached attributes are fine)
        for k, (t, bts) in agg_before.items():
            if tensor_bytes(t) != bts:
                viols.append({"clause": "aggregator_tensor_modified", "step": si, "details": {"agg": call["agg"]["kind"], "attribute": list(k)}, "key": {}})
        # model update
        for n in requested:
            upd, tol = updates[n]
            if exp_grad[n] is None:
                exp_grad[n] = upd.copy()
                exp_tol[n] = np.array(tol, dtype=np.float64) + 0 * upd
            else:
                accumulated_into_existing = True
                exp_grad[n] = exp_grad[n] + upd
                exp_tol[n] = exp_tol[n] + tol + 4 * eps * np.abs(exp_grad[n])
            if ambiguous:
                exp_tol[n] = exp_tol[n] + np.inf
        # (1b) "add to an existing .grad instead of replacing it": the object the user may hold keeps following
        for n in requested:
            if before[n] is not None and after[n] is not None and (before[n][0] != after[n][0] or before[n][2] != after[n][2]):
                viols.append({"clause": "existing_grad_replaced", "step": si, "details": {"param": n, "same_object": before[n][0] == after[n][0], "same_memory": before[n][2] == after[n][2], "was_contiguous": bool(world.t[n].grad.is_contiguous())}, "key": {}})
        # (3) unrequested tensors: same object, same bytes
        for n in world.names:
            if n in requested:
                continue
            if before[n] != after[n]:
                viols.append({"clause": "unrequested_grad_touched", "step": si, "details": {"tensor": n, "was_none": before[n] is None, "is_none": after[n] is None}, "key": {}})
        # (4) fresh .grad owns its storage
        for n in requested:
            if before[n] is None and after[n] is not None:
                g = world.t[n].grad
                own = g.numel() * g.element_size()
                if g.untyped_storage().nbytes() != own or g.storage_offset() != 0:
                    viols.append({"clause": "fresh_grad_shares_storage", "step": si, "details": {"param": n, "storage_nbytes": g.untyped_storage().nbytes(), "own_nbytes": own, "offset": g.storage_offset()}, "key": {}})
                lo, hi = g.data_ptr(), g.data_ptr() + own
                # tensors the user may still hold: every .grad object seen earlier (e.g. kept before `grad = None`)
                for old in kept_before:
                    if old.numel() == 0 or own == 0:
                        continue
                    lo2 = old.data_ptr()
                    hi2 = lo2 + old.numel() * old.element_size()
                    if old is g or (lo < hi2 and lo2 < hi):
                        viols.append({"clause": "fresh_grad_overlaps_other_tensor", "step": si, "details": {"param": n, "other": "a .grad tensor object observed earlier in the history" + (" (the very same object)" if old is g else "")}, "key": {}})
                        break
                for n2 in world.names:
                    t2 = world.t[n2]
                    others = [t2]
                    g2 = after[n2]
                    if n2 != n and g2 is not None and t2.grad is not None:
                        others.append(t2.grad)
                    for o in others:
                        if o.numel() == 0:
                            continue
                        lo2 = o.data_ptr()
                        hi2 = lo2 + o.numel() * o.element_size()
                        if lo < hi2 and lo2 < hi and own > 0:
                            viols.append({"clause": "fresh_grad_overlaps_other_tensor", "step": si, "details": {"param": n, "other": n2}, "key": {}})
        return True

    for si, st in enumerate(scn["steps"]):
        op = st["op"]
        if op == "call":
            if not do_call(st["call"], si):
                break
            last_call = st["call"]
        elif op == "repeat":
            if last_call is None:
                continue
            stats["reach.repeat_step"] = stats.get("reach.repeat_step", 0) + 1
            ok = True
            for _ in range(int(st["k"])):
                ok = do_call(last_call, si)
                if not ok:
                    break
            if not ok:
                break
        else:
            leaf = st["leaf"]
            if leaf not in world.t:
                continue
            x = world.t[leaf]
            stats[f"fault.grad_tamper_{op}"] = stats.get(f"fault.grad_tamper_{op}", 0) + 1
            if op == "none":
                x.grad = None
                exp_grad[leaf], exp_tol[leaf] = None, None
            elif op == "preload":
                g0 = torch.tensor(st["vals"], dtype=world.dtype).reshape(x.shape).clone()
                if g0.ndim >= 2 and st.get("noncontig"):
                    g0 = g0.transpose(0, -1).contiguous().transpose(0, -1)  # e.g. a strided window of a flat buffer
                x.grad = g0
                exp_grad[leaf] = np.array(st["vals"], dtype=np.float64).reshape(tuple(x.shape))
                exp_tol[leaf] = np.zeros(tuple(x.shape))
            elif x.grad is not None:
                if op == "zero":
                    x.grad.zero_()
                    exp_grad[leaf] = np.zeros(tuple(x.shape))
                    exp_tol[leaf] = np.zeros(tuple(x.shape))
                elif op == "mul":
                    x.grad.mul_(st["c"])
                    exp_grad[leaf] = exp_grad[leaf] * st["c"]
                    exp_tol[leaf] = exp_tol[leaf] * abs(st["c"]) + 2 * eps * np.abs(exp_grad[leaf])
                elif op == "add":
                    x.grad.add_(torch.tensor(st["vals"], dtype=world.dtype).reshape(x.shape))
                    exp_grad[leaf] = exp_grad[leaf] + np.array(st["vals"]).reshape(tuple(x.shape))
                    exp_tol[leaf] = exp_tol[leaf] + 2 * eps * np.abs(exp_grad[leaf])
            events.append([si, op, leaf])
        # (1) every leaf vs the model, after every step
        for n in world.leaf_names:
            got = world.grad_array(n)
            if (got is None) != (exp_grad[n] is None):
                viols.append({"clause": "grad_noneness", "step": si, "details": {"leaf": n, "got_none": got is None, "expected_none": exp_grad[n] is None}, "key": {}})
                continue
            if got is None:
                continue
            bad = compare(got, exp_grad[n], exp_tol[n] + 4 * eps * np.abs(exp_grad[n]) + 1e-290)
            if bad:
                viols.append({"clause": "grad_value_vs_model", "step": si, "details": {"leaf": n, **bad}, "key": {}})
        # (2) values of all tensors
        vb = world.values_bytes()
        if vb != values_before:
            changed = [n for n in world.names if vb[n] != values_before[n]]
            viols.append({"clause": "tensor_value_modified", "step": si, "details": {"tensors": changed}, "key": {}})
        signature.append([op, [world.t[n].grad is None for n in world.leaf_names]])
        if viols:
            break
    events.append(["final", digest({n: (None if world.t[n].grad is None else tensor_bytes(world.t[n].grad)) for n in world.leaf_names})])
    if accumulated_into_existing:
        stats["reach.accumulated_into_existing_grad"] = 1
    sets["step_trigrams"] = ["-".join(x[0] for x in signature[i : i + 3]) for i in range(max(1, len(signature) - 2))]
    uniq = {}
    for v in viols:
        uniq.setdefault(v["clause"], v)
    return {
        "violations": list(uniq.values()), "events": events, "stats": stats, "sets": sets,
        "sig": digest([op_sig(spec), signature]), "nontrivial": n_calls >= 2 and accumulated_into_existing,
    }


def shrink(scn):
    steps = scn["steps"]
    for i in range(len(steps) - 1, -1, -1):
        s = copy.deepcopy(scn)
        del s["steps"][i]
        if s["steps"]:
            yield s
    for i, st in enumerate(steps):
        if st["op"] == "call":
            c = st["call"]
            if c.get("chunk") is not None:
                s = copy.deepcopy(scn)
                s["steps"][i]["call"]["chunk"] = None
                yield s
            if c["agg"]["kind"] != "Sum":
                s = copy.deepcopy(scn)
                s["steps"][i]["call"]["agg"] = {"kind": "Sum"}
                yield s
            if c["api"] == "backward" and c.get("inputs") and len(c["inputs"]) > 1:
                for j in range(len(c["inputs"])):
                    s = copy.deepcopy(scn)
                    del s["steps"][i]["call"]["inputs"][j]
                    yield s
            if c["api"] == "backward" and len(c["tensors"]) > 1:
                for j in range(len(c["tensors"])):
                    s = copy.deepcopy(scn)
                    del s["steps"][i]["call"]["tensors"][j]
                    s["steps"][i]["call"]["agg"] = {"kind": "Sum"}
                    yield s
        if st["op"] == "repeat" and st["k"] > 2:
            s = copy.deepcopy(scn)
            s["steps"][i]["k"] = 2
            yield s
    protected = []
    for st in steps:
        if st["op"] == "call":
            c = st["call"]
            if c["api"] == "backward":
                protected += list(c["tensors"]) + list(c.get("inputs") or [])
            else:
                protected += list(c["losses"]) + list(c["features"]) + [p for tp in (c["tasks"] or []) for p in tp] + list(c["shared"] or [])
        elif "leaf" in st:
            protected.append(st["leaf"])
    for spec2 in spec_candidates(scn["spec"], protected):
        s = copy.deepcopy(scn)
        s["spec"] = spec2
        yield s
