"""C02 -- mtl_backward(): own-task gradients for heads, aggregated Jacobian for the trunk."""
import copy

import numpy as np

from .. import seams
from ..autogen import apply_pre_grads, count_sweeps, gen_chunk, gen_det_agg, gen_pre_grads, op_sig
from ..model import Model
from ..seeds import digest
from ..shrinkspec import spec_candidates
from ..spec import gen_mtl
from ..world import spec_eps, EPS, World, compare, expect_mtl, gen_sched, identity_sched, run_call

ID = "C02"
LEVEL = "exploration"
BUDGET = {
    "quick": {"runs": 4000, "wall": 240, "chunk": 25},
    "thorough": {"runs": 150000, "wall": 3400, "chunk": 100},
}
RULE = (
    "each run draws a trunk/heads program (1..3 trunk leaves, 1..3 feature tensors of any shape, 1..4 heads "
    "with zero/one/many own leaves, leaves shared between tasks, leaves bypassing the features), explicit or "
    "defaulted parameter lists in random listing order, a deterministic aggregator (Constant with distinct "
    "weights, UPGrad(pref), Krum, TrimmedMean, Sum, Mean), a chunk size, pre-existing .grad content and an S1 "
    "schedule; the real mtl_backward() runs and the increments of every listed parameter are compared with "
    "the NumPy model (task parameters: total derivative of each listing task's loss; shared: aggregation of "
    "rows back-propagated through the features only); re-run under another schedule/listing order. "
    "Non-trivial: >=2 tasks and >=2 shared columns; distinct = digest of (ops, shapes, configuration, orders)."
)
REAL = [
    "torchjd.autojac.mtl_backward and every transform behind it (Grad, Stack, Select, Jac, Aggregate, Accumulate)",
    "torchjd.aggregation (Constant/Sum/Mean/UPGrad/TrimmedMean/Krum)", "torch.autograd engine (CPU)", "torch.vmap", "quadprog",
]
STUBS = [
    "torch.Tensor.__hash__ (S1 seam)", "insertion order of the discovered default leaf sets (S1b seam; content untouched)",
    "probe autograd.Function nodes are simulator-owned user code",
]
ASSUMPTIONS = [
    "reference = NumPy forward-mode interpreter; heads are interpreted with the features cut as fresh independent variables",
    "features are pairwise non-ancestors and never outputs of multi-output ops (sibling ambiguity, DESIGN §2.3)",
    "tolerance as for C01; Krum ties (<1e-6 relative score gap) assert nothing",
]


def head_crosses_trunk(spec, call, model=None):
    """True when some (explicit or defaulted) task parameter has a differentiable path to a feature:
    differentiating that task's loss w.r.t. it sweeps trunk nodes, i.e. the heads share graph nodes
    besides the features with the trunk sweep. C13 scopes retain_graph=False to programs where they do
    not, so such calls are only generated with retain_graph=True (anything else would demand more than
    the properties state)."""
    from ..world import default_params_mtl

    model = model or Model(spec)
    tasks = call.get("tasks")
    if tasks is None:
        cutmodel = Model(spec, cut=call["features"])
        _, tasks = default_params_mtl(model, cutmodel, call["losses"], call["features"])
    fanc = set()
    for f in call["features"]:
        fanc |= set(model.values[f].anc)
    return any(p in fanc for tp in tasks for p in tp)


def fix_retain(spec, call, model=None):
    if call["api"] == "mtl" and not call.get("retain", False) and head_crosses_trunk(spec, call, model):
        call["retain"] = True
        return True
    return False


def gen_mtl_call(rng, spec, roles, dtype, model=None, allow_default=True, linear_only=False, families=None):
    """Draws a *valid* mtl_backward call for the given world."""
    t = len(roles["losses"])
    order = list(range(t))
    rng.shuffle(order)
    losses = [roles["losses"][i] for i in order]
    features = list(roles["features"])
    rng.shuffle(features)
    rg = {leaf["name"]: leaf["rg"] for leaf in spec["leaves"]}
    model = model or Model(spec)
    cutmodel = Model(spec, cut=roles["features"])
    trunk = [n for n in roles["trunk_leaves"] if rg[n]]
    # default sets (from the model) -- used to decide whether defaults are valid (no overlap)
    fanc = set()
    for f in features:
        fanc |= set(model.values[f].anc)
    d_shared = [n for n in trunk if n in fanc]
    d_tasks = []
    for loss in losses:
        anc = set(cutmodel.values[loss].anc)
        d_tasks.append([leaf["name"] for leaf in spec["leaves"] if leaf["rg"] and leaf["name"] in anc])
    overlap = any(p in d_shared for tp in d_tasks for p in tp)

    # explicit lists
    bypass_to_task = rng.random() < 0.5
    shared = [n for n in trunk if rng.random() < 0.9]
    tasks = []
    for k, i in enumerate(order):
        own = [n for n in roles["head_leaves"][i] if rg[n]]
        tp = [n for n in own if rng.random() < 0.9]
        # parameters actually used by this head but owned by another task / trunk bypass
        for n in d_tasks[k]:
            if n in tp:
                continue
            if n in trunk:
                if bypass_to_task and rng.random() < 0.7:
                    tp.append(n)
            elif rng.random() < 0.8:
                tp.append(n)
        # occasionally list a parameter that does not influence this loss at all
        if rng.random() < 0.15:
            others = [n for hl in roles["head_leaves"] for n in hl if rg[n] and n not in tp]
            if others:
                tp.append(rng.choice(others))
        rng.shuffle(tp)
        tasks.append(tp)
    listed = {p for tp in tasks for p in tp}
    shared = [n for n in shared if n not in listed]
    rng.shuffle(shared)
    use_default_shared = allow_default and not overlap and rng.random() < 0.3
    use_default_tasks = allow_default and not overlap and rng.random() < 0.3
    if use_default_shared and not use_default_tasks:
        # explicit tasks must not contain default-shared leaves
        tasks = [[p for p in tp if p not in d_shared] for tp in tasks]
    if use_default_tasks and not use_default_shared:
        dt = {p for tp in d_tasks for p in tp}
        shared = [n for n in shared if n not in dt]
    call = {
        "api": "mtl", "losses": losses, "features": features,
        "features_single": len(features) == 1 and rng.random() < 0.5,
        "tasks": None if use_default_tasks else tasks,
        "shared": None if use_default_shared else shared,
        "agg": gen_det_agg(rng, t, dtype, linear_only=linear_only, families=families),
        "chunk": gen_chunk(rng, t), "retain": rng.random() < 0.5,
    }
    fix_retain(spec, call, model)
    from ..world import gen_forms

    call["forms"] = gen_forms(rng, t)
    return call


def generate(rng, tier, index):
    dtype = "float64" if rng.random() < 0.8 else "float32"
    r = gen_mtl(rng, dtype, p_probe=0.08)
    if r is None:
        return None
    spec, roles, g = r
    call = gen_mtl_call(rng, spec, roles, dtype)
    if rng.random() < 0.12:
        call["agg_hook"] = rng.choice([-2.0, 0.5, 3.0])  # a forward hook registered on the user's aggregator
    alt_call = copy.deepcopy(call)
    if alt_call["tasks"] is not None:
        for tp in alt_call["tasks"]:
            rng.shuffle(tp)
    if alt_call["shared"] is not None:
        rng.shuffle(alt_call["shared"])
    rng.shuffle(alt_call["features"])
    return {
        "spec": spec, "roles": roles, "call": call, "sched": gen_sched(rng, spec),
        "pre_grads": gen_pre_grads(rng, spec),
        "alt": {"call": alt_call, "sched": gen_sched(rng, spec)},
    }


def _exec(spec, sched, call, pre, stats, events, tag):
    world = World(spec, sched)
    stats["reach.preloaded_grad"] = stats.get("reach.preloaded_grad", 0) + apply_pre_grads(world, pre)
    before = {n: world.grad_array(n) for n in world.leaf_names}
    out, _ = run_call(world, call)
    stats["api_calls"] = stats.get("api_calls", 0) + 1
    stats["sweeps"] = stats.get("sweeps", 0) + count_sweeps(world.log.events)
    if out.get("discover_calls"):
        stats["reach.discover_seam"] = stats.get("reach.discover_seam", 0) + 1
    events.append([tag, out["ok"], out["exc"]])
    if not out["ok"]:
        return world, None, {"clause": "valid_call_raised", "step": tag, "details": out, "key": {"exc": out["exc"], "msg": (out.get("msg") or "")[:40]}}
    dep = {}
    for n in world.leaf_names:
        a = world.grad_array(n)
        b = before[n]
        dep[n] = None if a is None else a - (b if b is not None else 0.0)
    events.append([tag, "grads", digest({n: (None if world.t[n].grad is None else world.t[n].grad.detach().numpy().tobytes()) for n in world.leaf_names})])
    return world, dep, None


def check_against_model(world, dep, exp, eps, viols, clause_prefix, step):
    for group, clause in (("task_updates", "task_param_deposit"), ("shared_updates", "shared_param_deposit")):
        if group == "shared_updates" and exp["ambiguous"]:
            continue
        for n, (upd, tol) in exp[group].items():
            got = dep[n]
            if got is None:
                viols.append({"clause": clause_prefix + clause, "step": step, "details": {"param": n, "problem": "grad is None"}, "key": {}})
                continue
            g_after = np.abs(world.grad_array(n))
            bad = compare(got, upd, tol + 4 * eps * g_after)
            if bad:
                viols.append({"clause": clause_prefix + clause, "step": step, "details": {"param": n, **bad}, "key": {}})


def execute(scn):
    spec, call, roles = scn["spec"], scn["call"], scn["roles"]
    model = Model(spec)
    cutmodel = Model(spec, cut=call["features"])
    eps = spec_eps(spec)
    stats, events, viols, sets = {}, [], [], {}
    from ..world import require_valid

    require_valid(model, call, cutmodel)
    exp = expect_mtl(model, cutmodel, call, eps)
    if exp["overlap"]:
        # generator bug guard: C02 only generates valid calls
        raise AssertionError("generated overlapping call")
    world, dep, v = _exec(spec, scn["sched"], call, scn.get("pre_grads", {}), stats, events, "main")
    if v:
        return {"violations": [v], "events": events, "stats": stats, "sig": None, "nontrivial": False}
    if exp["ambiguous"]:
        stats["reach.ambiguous_skipped"] = 1
    check_against_model(world, dep, exp, eps, viols, "", "main")
    t = len(call["losses"])
    ncols = exp["J"].shape[1]
    if call.get("shared") is not None and len(call["shared"]) > 1:
        eff = seams.effective_order([world.t[n] for n in call["shared"]])
        if eff != sorted(eff):
            stats["reach.hash_order_ne_listing_order"] = 1
    if any(len(tp) == 0 for tp in exp["tasks"]):
        stats["reach.task_with_zero_params"] = 1
    listed = [p for tp in exp["tasks"] for p in tp]
    if len(listed) != len(set(listed)):
        stats["reach.param_shared_between_tasks"] = 1
    if len(call["features"]) > 1:
        stats["reach.multi_feature"] = 1
    if np.any(np.all(exp["J"] == 0, axis=1)) and ncols:
        stats["reach.zero_row"] = 1
    sets["agg_kind"] = [call["agg"]["kind"]]
    sets["cfg"] = [f"t={t},f={len(call['features'])},k={call.get('chunk')},dt={call['tasks'] is None},ds={call['shared'] is None}"]

    alt = scn.get("alt")
    if alt and not viols:
        world2, dep2, v2 = _exec(spec, alt["sched"], alt["call"], scn.get("pre_grads", {}), stats, events, "alt")
        if v2:
            viols.append(v2)
        else:
            check_against_model(world2, dep2, exp, eps, viols, "alt_", "alt")

    sig = digest([op_sig(spec), call["agg"]["kind"], call.get("chunk"), call["tasks"] is None, call["shared"] is None, t, len(call["features"])])
    return {"violations": viols, "events": events, "stats": stats, "sets": sets, "sig": sig, "nontrivial": t >= 2 and ncols >= 2}


def shrink(scn):
    call = scn["call"]
    if scn.get("pre_grads"):
        s = copy.deepcopy(scn)
        s["pre_grads"] = {}
        yield s
    if scn.get("alt"):
        s = copy.deepcopy(scn)
        s["alt"] = None
        yield s
    if call.get("chunk") is not None:
        s = copy.deepcopy(scn)
        s["call"]["chunk"] = None
        if s.get("alt"):
            s["alt"]["call"]["chunk"] = None
        yield s
    if call["agg"]["kind"] != "Sum":
        s = copy.deepcopy(scn)
        s["call"]["agg"] = {"kind": "Sum"}
        if s.get("alt"):
            s["alt"]["call"]["agg"] = {"kind": "Sum"}
        yield s
    s = copy.deepcopy(scn)
    s["sched"] = identity_sched(scn["spec"])
    if s["sched"]["ranks"] != scn["sched"]["ranks"]:
        yield s
    # drop a task
    if len(call["losses"]) > 1:
        for i in range(len(call["losses"])):
            s = copy.deepcopy(scn)
            s["alt"] = None
            del s["call"]["losses"][i]
            if s["call"]["tasks"] is not None:
                del s["call"]["tasks"][i]
            if s["call"]["agg"]["kind"] == "Constant":
                del s["call"]["agg"]["w"][i]
            yield s
    # drop a parameter from a list
    if call["tasks"] is not None:
        for i, tp in enumerate(call["tasks"]):
            for j in range(len(tp)):
                s = copy.deepcopy(scn)
                s["alt"] = None
                del s["call"]["tasks"][i][j]
                yield s
    if call["shared"] is not None and len(call["shared"]) > 1:
        for j in range(len(call["shared"])):
            s = copy.deepcopy(scn)
            s["alt"] = None
            del s["call"]["shared"][j]
            yield s
    protected = list(call["losses"]) + list(call["features"])
    keep = [p for tp in (call["tasks"] or []) for p in tp] + list(call["shared"] or [])
    for spec2 in spec_candidates(scn["spec"], protected, keep_leaves=keep):
        s = copy.deepcopy(scn)
        s["spec"] = spec2
        yield s
