"""C16 -- Byzantine-robust aggregators ignore a bounded number of arbitrary rows (F6 fault enumeration)."""
import copy

import numpy as np
import torch

from ..aggs import make_agg, ref_krum, ref_trimmed_mean
from ..seeds import digest

ID = "C16"
LEVEL = "fault_enumeration"
BUDGET = {
    "quick": {"runs": 2000, "wall": 300, "chunk": 10},
    "thorough": {"runs": 150000, "wall": 3400, "chunk": 50},
}
PALETTE = ["huge_random", "huge_same_sign", "colluding_duplicates", "copy_of_honest_row", "honest_extremes", "zeros", "sign_flip_scaled", "near_honest_mean", "mixed"]
RULE = (
    "a run = m<=9 simulated workers (12% of the runs: a federation of 26..34 workers, mostly with near-identical "
    "gradients = large common component + small noise) producing honest rows (n<=6 resp. <=12 columns, scale "
    "1e-3..1e3, float32/float64, sometimes with duplicated or tied entries) and one aggregator drawn over ALL admissible parameters "
    "(TrimmedMean b<=(m-1)/2; Krum f<=m-3, k<=m). For that honest matrix the simulator ENUMERATES every "
    "corruption count c=0..b (resp. 0..f) x every kind of the fault palette (values up to 1e12 x honest scale, "
    "same-sign outliers, colluding duplicates, copies of honest rows, per-column honest extremes, zeros, scaled "
    "sign flips, near-mean, mixed); which workers are hit is seeded. Oracles: TrimmedMean == reference (sort "
    "each column, drop b per side, mean) and every coordinate within [min,max] of the untouched rows; Krum == "
    "mean of the k distinct rows with the smallest reference scores (sum of the m-f-2 smallest distances to "
    "OTHER rows), with a score-gap margin; too few rows must be rejected (F3). One evaluation = one "
    "(matrix, count, kind) case; non-trivial = c>=1; distinct = digest of the corrupted matrix + parameters."
)
REAL = ["torchjd.aggregation.TrimmedMean", "torchjd.aggregation.Krum", "torch.sort/topk/cdist"]
STUBS = ["Byzantine workers: the simulator replaces rows of the Jacobian on the cotangent channel (S4/F6)"]
ASSUMPTIONS = [
    "reference models in NumPy float64 on the exactly converted input data",
    "Krum cases whose k-th/(k+1)-th score gap is below 64*(n+m)*eps relative are ties: any k distinct rows consistent with the score order (read from aggregator.weighting) are accepted",
    "the honest-range invariant is asserted for TrimmedMean only (the statement claims it only there) and only when c <= b",
]


def _honest(rng, m, n, scale):
    rows = []
    base = [rng.uniform(-1, 1) for _ in range(n)]
    for _ in range(m):
        rows.append([scale * (b + rng.uniform(-0.5, 0.5)) for b in base])
    r = rng.random()
    if r < 0.15 and m >= 2:
        i, j = rng.sample(range(m), 2)
        rows[j] = list(rows[i])  # duplicated honest worker
    elif r < 0.3:
        c = rng.randrange(n)
        v = rows[0][c]
        for i in range(m):
            if rng.random() < 0.5:
                rows[i][c] = v  # ties inside a column
    return rows


def _corrupt(rng, honest, rows_hit, kind, scale):
    m, n = len(honest), len(honest[0])
    untouched = [honest[i] for i in range(m) if i not in rows_hit]
    out = {}
    col_max = [max(r[c] for r in untouched) for c in range(n)] if untouched else [0.0] * n
    col_min = [min(r[c] for r in untouched) for c in range(n)] if untouched else [0.0] * n
    shared_vec = [rng.choice([-1, 1]) * 1e12 * scale * rng.uniform(0.1, 1) for _ in range(n)]
    for i in rows_hit:
        k = kind
        if kind == "mixed":
            k = rng.choice(PALETTE[:-1])
        if k == "huge_random":
            v = [rng.choice([-1, 1]) * scale * 10 ** rng.uniform(2, 12) for _ in range(n)]
        elif k == "huge_same_sign":
            v = [1e12 * scale * rng.uniform(0.5, 1) for _ in range(n)]
        elif k == "colluding_duplicates":
            v = list(shared_vec)
        elif k == "copy_of_honest_row":
            v = list(rng.choice(untouched)) if untouched else [0.0] * n
        elif k == "honest_extremes":
            v = [rng.choice([col_max[c], col_min[c]]) for c in range(n)]
        elif k == "zeros":
            v = [0.0] * n
        elif k == "sign_flip_scaled":
            v = [-1e3 * x for x in honest[i]]
        else:  # near_honest_mean
            v = [sum(r[c] for r in untouched) / max(1, len(untouched)) + scale * rng.uniform(-1e-3, 1e-3) for c in range(n)]
        out[i] = v
    return out


def _clustered(rng, m, n, scale):
    """Many honest workers with near-identical gradients: a large common component plus small noise (the
    setting the Byzantine-robust aggregators are meant for; distances are tiny relative to the norms)."""
    offset = [scale * rng.choice([-1, 1]) * rng.uniform(500, 20000) for _ in range(n)]
    return [[o + scale * rng.gauss(0, 1) for o in offset] for _ in range(m)]


def generate(rng, tier, index):
    dtype = "float32" if rng.random() < 0.5 else "float64"
    fam = "TrimmedMean" if index % 2 == 0 else "Krum"
    big = rng.random() < 0.12  # a federation of 26..34 workers
    if fam == "TrimmedMean":
        m = rng.randint(26, 34) if big else rng.randint(1, 9)
        b = rng.randint(0, min(4, (m - 1) // 2)) if big else rng.randint(0, (m - 1) // 2)
        agg = {"kind": "TrimmedMean", "b": b}
        budget = b
    else:
        m = rng.randint(26, 34) if big else rng.randint(3, 9)
        f = rng.randint(0, 4) if big else rng.randint(0, m - 3)
        k = rng.randint(1, m)
        agg = {"kind": "Krum", "f": f, "k": k}
        budget = f
    n = rng.randint(1, 6) if not big else rng.randint(2, 12)
    scale = 10 ** rng.uniform(-3, 3)
    if big:
        dtype = "float32" if rng.random() < 0.75 else "float64"
        honest = _clustered(rng, m, n, scale) if rng.random() < 0.7 else _honest(rng, m, n, scale)
    else:
        honest = _honest(rng, m, n, scale)
    cases = []
    for c in range(0, budget + 1):
        kinds = PALETTE if c >= 1 else ["none"]
        for kind in kinds:
            hit = sorted(rng.sample(range(m), c))
            cases.append({"count": c, "kind": kind, "form": rng.choice(["plain", "plain", "plain", "noncontig", "requires_grad"]), "rows": {str(i): v for i, v in _corrupt(rng, honest, hit, kind, scale).items()}})
    # F3: too few rows
    if fam == "TrimmedMean":
        few = [{"agg": {"kind": "TrimmedMean", "b": bb}, "m": mm} for bb in (1, 2, 4) for mm in (1, 2 * bb) if mm >= 1]
    else:
        few = [{"agg": {"kind": "Krum", "f": ff, "k": 1}, "m": ff + 2} for ff in (0, 1, 3)] + [{"agg": {"kind": "Krum", "f": 0, "k": 5}, "m": 4}]
    return {"agg": agg, "dtype": dtype, "honest": honest, "cases": cases, "too_few": few, "reuse_buffer": rng.random() < 0.5}


def execute(scn):
    dtype = torch.float32 if scn["dtype"] == "float32" else torch.float64
    eps = 1.1920929e-07 if scn["dtype"] == "float32" else 2.220446049250313e-16
    A = make_agg(scn["agg"], dtype)
    honest = scn["honest"]
    m, n = len(honest), len(honest[0])
    stats, events, viols, sets = {}, [], [], {}
    cases_sig = []
    buffers = {}
    for ci, case in enumerate(scn["cases"]):
        rows = [list(r) for r in honest]
        hit = sorted(int(i) for i in case["rows"].keys())
        for i in hit:
            rows[i] = list(case["rows"][str(i)])
        from ..aggs import matrix_form

        form = case.get("form", "plain")
        if scn.get("reuse_buffer") and form != "requires_grad":
            # the same tensor object refilled in place for every case (a reused Jacobian buffer): the result
            # must depend on its current contents, not on its identity
            key = (len(rows), len(rows[0]), form)
            if key not in buffers:
                buffers[key] = matrix_form(torch.zeros((len(rows), len(rows[0])), dtype=dtype), form)
            buffers[key].copy_(torch.tensor(rows, dtype=dtype))
            Jt = buffers[key]
            stats["reach.input_buffer_refilled_in_place"] = stats.get("reach.input_buffer_refilled_in_place", 0) + 1
        else:
            Jt = matrix_form(torch.tensor(rows, dtype=dtype), form)
        J = Jt.detach().to(torch.float64).numpy()
        before = Jt.detach().clone()
        try:
            out = A(Jt)
        except Exception as e:  # noqa: BLE001
            viols.append({"clause": "admissible_matrix_rejected", "step": ci, "details": {"exc": f"{type(e).__name__}: {str(e)[:200]}", "kind": case["kind"], "count": case["count"]}, "key": {}})
            continue
        stats["api_calls"] = stats.get("api_calls", 0) + 1
        if m > 25:
            stats["reach.more_than_25_workers"] = stats.get("reach.more_than_25_workers", 0) + 1
        if case["count"] >= 1:
            stats[f"fault.byzantine_{case['kind']}"] = stats.get(f"fault.byzantine_{case['kind']}", 0) + 1
        got = out.detach().to(torch.float64).numpy()
        events.append([ci, digest(out.detach().numpy().tobytes())])
        cases_sig.append(digest([scn["agg"], J.tobytes()]))
        if not torch.equal(before, Jt.detach()):
            viols.append({"clause": "input_modified", "step": ci, "details": {}, "key": {}})
        if got.shape != (n,) or not np.all(np.isfinite(got)):
            viols.append({"clause": "bad_shape_or_nonfinite", "step": ci, "details": {"shape": list(got.shape)}, "key": {}})
            continue
        untouched = np.array([J[i] for i in range(m) if i not in hit]) if len(hit) < m else np.zeros((0, n))
        if scn["agg"]["kind"] == "TrimmedMean":
            b = int(scn["agg"]["b"])
            ref = ref_trimmed_mean(J, b)
            S = np.sort(J, axis=0)[b : m - b]
            tol = 8 * (m + 2) * eps * np.abs(S).max(axis=0) + 1e-300
            bad = np.abs(got - ref) > tol
            if bad.any():
                c = int(np.argmax(bad))
                viols.append({"clause": "trimmed_mean_differs_from_reference", "step": ci, "details": {"column": c, "got": float(got[c]), "ref": float(ref[c]), "tol": float(tol[c]), "b": b, "m": m, "kind": case["kind"], "count": case["count"]}, "key": {}})
            if len(hit) <= b and untouched.shape[0] > 0:
                lo, hi = untouched.min(axis=0), untouched.max(axis=0)
                slack = 8 * (m + 2) * eps * np.maximum(np.abs(lo), np.abs(hi)) + 1e-300
                outside = (got < lo - slack) | (got > hi + slack)
                if outside.any():
                    c = int(np.argmax(outside))
                    viols.append({"clause": "output_outside_honest_range", "step": ci, "details": {"column": c, "got": float(got[c]), "honest_min": float(lo[c]), "honest_max": float(hi[c]), "b": b, "corrupted": len(hit), "kind": case["kind"]}, "key": {}})
                if len(hit) >= 1:
                    stats["reach.honest_range_checked_under_corruption"] = stats.get("reach.honest_range_checked_under_corruption", 0) + 1
        else:
            f, k = int(scn["agg"]["f"]), int(scn["agg"]["k"])
            ref, sel, margin, scores = ref_krum(J, f, k)
            order = np.argsort(scores, kind="stable")
            ambiguous = False
            if k < m:
                sk, sk1 = scores[order[k - 1]], scores[order[k]]
                ambiguous = (sk1 - sk) <= 64 * (n + m) * eps * (abs(sk) + abs(sk1)) + 1e-300
            if ambiguous:
                # ties: any k distinct rows consistent with the score order are acceptable
                stats["reach.ambiguous_tie_weaker_oracle"] = stats.get("reach.ambiguous_tie_weaker_oracle", 0) + 1
                try:
                    w = A.weighting(Jt).detach().to(torch.float64).numpy()
                except Exception:  # noqa: BLE001
                    w = None
                if w is not None and w.shape == (m,):
                    nz = [i for i in range(m) if w[i] != 0.0]
                    sk = scores[order[k - 1]]
                    slack = 64 * (n + m) * eps * (2 * abs(sk)) + 1e-300
                    must = [int(i) for i in range(m) if scores[i] < sk - slack]
                    may = [int(i) for i in range(m) if scores[i] <= sk + slack]
                    ok = len(nz) == k and np.abs(w[nz] - 1.0 / k).max() <= 4 * eps and all(i in may for i in nz) and all(i in nz for i in must)
                    if not ok:
                        viols.append({"clause": "krum_not_plain_average_of_k_distinct_rows", "step": ci, "details": {"nonzero_weights": nz, "weights": [float(x) for x in w], "must_select": must, "may_select": may, "k": k, "tie": True}, "key": {}})
                    else:
                        refv = J[nz].mean(axis=0)
                        tol = 8 * (k + 2) * eps * np.abs(J[nz]).max(axis=0) + 1e-300
                        if (np.abs(got - refv) > tol).any():
                            viols.append({"clause": "krum_differs_from_reference", "step": ci, "details": {"tie": True, "selected": nz}, "key": {}})
            else:
                tol = 8 * (k + 2) * eps * np.abs(J[sel]).max(axis=0) + 1e-300
                bad = np.abs(got - ref) > tol
                if bad.any():
                    c = int(np.argmax(bad))
                    viols.append({"clause": "krum_differs_from_reference", "step": ci, "details": {"column": c, "got": float(got[c]), "ref": float(ref[c]), "selected_by_reference": sel, "f": f, "k": k, "m": m, "kind": case["kind"], "count": case["count"]}, "key": {}})
                w = None
                try:
                    w = A.weighting(Jt).detach().to(torch.float64).numpy()
                except Exception:  # noqa: BLE001
                    w = None
                if w is not None and w.shape == (m,):
                    nz = [i for i in range(m) if w[i] != 0.0]
                    if sorted(nz) != sel or np.abs(w[nz] - 1.0 / k).max() > 4 * eps:
                        viols.append({"clause": "krum_not_plain_average_of_k_distinct_rows", "step": ci, "details": {"nonzero_weights": nz, "weights": [float(x) for x in w], "expected_rows": sel, "k": k}, "key": {}})
                if any(i in hit for i in sel):
                    stats["reach.krum_selected_a_corrupted_row_by_definition"] = stats.get("reach.krum_selected_a_corrupted_row_by_definition", 0) + 1
    # F3: too few rows
    for fi, few in enumerate(scn.get("too_few", [])):
        B = make_agg(few["agg"], dtype)
        Jt = torch.ones((few["m"], n), dtype=dtype)
        stats["fault.too_few_rows_F3"] = stats.get("fault.too_few_rows_F3", 0) + 1
        try:
            B(Jt)
            viols.append({"clause": "too_few_rows_not_rejected", "step": ["few", fi], "details": few, "key": {}})
        except Exception:  # noqa: BLE001 - "both reject matrices with too few rows": any exception is a rejection
            pass
    stats["evaluations"] = len(scn["cases"])
    sets["cases"] = cases_sig
    sets["params"] = [f"{scn['agg']},m={m}"]
    uniq = {}
    for v in viols:
        uniq.setdefault(v["clause"], v)
    return {"violations": list(uniq.values()), "events": events, "stats": stats, "sets": sets, "sig": digest([scn["agg"], m, n, scn["dtype"], cases_sig]), "nontrivial": any(c["count"] >= 1 for c in scn["cases"])}


def evidence_extra(agg_stats, sets, tier):
    return {"evaluations_corruption_cases": agg_stats.get("evaluations", 0), "distinct_corrupted_matrices": len(sets.get("cases", [])), "distinct_parameterisations": len(sets.get("params", []))}


def shrink(scn):
    if len(scn["cases"]) > 1:
        for i in range(len(scn["cases"])):
            s = copy.deepcopy(scn)
            s["cases"] = [scn["cases"][i]]
            s["too_few"] = []
            yield s
    if scn.get("too_few"):
        s = copy.deepcopy(scn)
        s["too_few"] = []
        yield s
        if len(scn["too_few"]) > 1:
            for i in range(len(scn["too_few"])):
                s = copy.deepcopy(scn)
                s["too_few"] = [scn["too_few"][i]]
                s["cases"] = []
                yield s
    n = len(scn["honest"][0])
    if n > 1:
        for c in range(n):
            s = copy.deepcopy(scn)
            s["honest"] = [[v for j, v in enumerate(r) if j != c] for r in s["honest"]]
            for case in s["cases"]:
                case["rows"] = {k: [v for j, v in enumerate(r) if j != c] for k, r in case["rows"].items()}
            yield s
    if scn["dtype"] == "float32":
        s = copy.deepcopy(scn)
        s["dtype"] = "float64"
        yield s
