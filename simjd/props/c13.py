"""C13 -- retain_graph means what it means in torch.autograd (history simulation against a twin)."""
import copy
import json

import numpy as np
import torch

from ..aggs import ref_weights_linear
from ..autogen import count_sweeps, gen_det_agg, op_sig
from ..model import Model, numel
from ..seeds import digest
from ..shrinkspec import spec_candidates
from ..spec import gen_mtl, gen_program
from ..world import spec_eps, EPS, World, compare, default_inputs_backward, default_params_mtl, expect_backward, expect_mtl, gen_sched, run_call
from . import c02 as C02

ID = "C13"
LEVEL = "exploration"
BUDGET = {
    "quick": {"runs": 2600, "wall": 300, "chunk": 20},
    "thorough": {"runs": 100000, "wall": 3400, "chunk": 100},
}
RULE = (
    "a run = one program instantiated twice (world, twin) and a history of 1..3 steps from {backward, "
    "mtl_backward, torch.autograd.backward, torch.autograd.grad} x retain_graph in {False,True} x chunk in "
    "{None,1,2,m+1}. The world executes torchjd steps with linear aggregators; the twin executes the "
    "torch.autograd-only equivalent with the same flag (backward <-> autograd.backward with grad_tensors; "
    "mtl_backward <-> per task autograd.grad(loss_i, params_i+features, retain_graph=flag) then "
    "autograd.backward(features, g, inputs=shared, retain_graph=flag); additionally the one-stage "
    "autograd.backward(losses, w, inputs=all params) on a third instantiation when it traverses the same "
    "nodes). After every step: same outcome class (ok/RuntimeError), same .grad, and the same vector of "
    "non-destructive freed-probes autograd.grad(v, x, retain_graph=True) over all (value, leaf/feature) "
    "pairs. A history stops at the first RuntimeError. Non-trivial: >=2 steps or a multi-sweep call with "
    "retain_graph=False; distinct = digest of (ops, shapes, step kinds/flags/chunks, outcome classes)."
)
REAL = ["torchjd.autojac backward / mtl_backward retain_graph plumbing (Jac first/last sweeps, task Grad)", "torch.autograd engine and its buffer freeing"]
STUBS = ["probe nodes that save tensors (simulator-owned user code) make buffer freeing observable", "torch.Tensor.__hash__ (S1 seam)"]
ASSUMPTIONS = [
    "torch.autograd driven with the same flag on an identical twin graph defines what 'freed' means",
    "freed-probe = torch.autograd.grad(value, target, retain_graph=True) succeeds / raises RuntimeError; it frees nothing itself",
    "mtl histories use heads sharing no node besides the features (by construction of the generator); float64 only",
]


# step types: (kind, retain, chunk class); chunk classes: None, 1, 2, "m+1"
STEP_TYPES = (
    [("jd_backward", r, c) for r in (False, True) for c in (None, 1, 2, "m+1")]
    + [("jd_mtl", r, c) for r in (False, True) for c in (None, 1, 2, "m+1")]
    + [("torch_backward", r, None) for r in (False, True)]
    + [("torch_grad", r, None) for r in (False, True)]
)
N_SEQ = sum(len(STEP_TYPES) ** k for k in (1, 2, 3))  # all sequences of 1..3 step types: 8420


def _seq_from_index(h):
    length = 1
    base = len(STEP_TYPES)
    while h >= base**length:
        h -= base**length
        length += 1
    out = []
    for _ in range(length):
        out.append(STEP_TYPES[h % base])
        h //= base
    return out


def generate(rng, tier, index):
    dtype = "float64"
    forced = None
    if tier == "thorough" and index < 8 * N_SEQ:
        # the thorough tier deals its first 8*N_SEQ runs over ALL sequences of up to 3 step types
        forced = _seq_from_index(index % N_SEQ)
    is_mtl = rng.random() < 0.5
    if forced is not None:
        is_mtl = any(t[0] == "jd_mtl" for t in forced) or rng.random() < 0.3
    if is_mtl:
        r = gen_mtl(rng, dtype, p_probe=0.25, allow_bypass=rng.random() < 0.3)
        if r is None:
            return None
        spec, roles, g = r
    else:
        spec, g = gen_program(rng, dtype, p_probe=0.25)
        roles = None
    model = Model(spec)
    cands = [o for n in spec["nodes"] for o in n["out"] if model.values[o].rq and numel(model.values[o].shape) >= 1]
    rg = [leaf["name"] for leaf in spec["leaves"] if leaf["rg"]]
    if not cands or not rg:
        return None
    steps = []
    n_steps = rng.choice([1, 2, 2, 3, 3]) if tier == "quick" else rng.choice([1, 2, 3, 3, 4, 5])
    if forced is not None:
        n_steps = len(forced)
    for si in range(n_steps):
        retain = rng.random() < 0.55
        kind = rng.choice(["jd", "jd", "jd", "torch_backward", "torch_grad"])
        want_mtl = kind == "jd" and is_mtl and rng.random() < 0.7
        cclass = rng.choice([None, 1, 2, "m+1"])
        if forced is not None:
            fk, retain, cclass = forced[si]
            kind = "jd" if fk.startswith("jd_") else fk
            want_mtl = fk == "jd_mtl"
        if want_mtl:
            call = C02.gen_mtl_call(rng, spec, roles, dtype, model=model, linear_only=True)
            m = len(call["losses"])
            call["chunk"] = m + 1 if cclass == "m+1" else cclass
            call["retain"] = retain
            steps.append({"kind": "jd", "call": call})
            continue
        # choose tensors (<= 8 rows) and inputs
        pool = list(cands)
        rng.shuffle(pool)
        outs, rows = [], 0
        for n in pool:
            if len(outs) >= rng.choice([1, 1, 2]):
                break
            if rows + numel(model.values[n].shape) <= 8:
                outs.append(n)
                rows += numel(model.values[n].shape)
        if not outs:
            return None
        inputs = rng.sample(rg, rng.randint(1, len(rg))) if rng.random() < 0.7 else None
        if kind == "jd":
            from ..world import gen_forms

            call = {"api": "backward", "tensors": outs, "inputs": inputs, "agg": gen_det_agg(rng, rows, dtype, linear_only=True), "chunk": rows + 1 if cclass == "m+1" else cclass, "retain": retain, "forms": gen_forms(rng)}
            steps.append({"kind": "jd", "call": call})
        else:
            w = [rng.randint(-8, 8) / 4.0 for _ in range(rows)]
            if kind == "torch_grad" and inputs is None:
                inputs = rng.sample(rg, rng.randint(1, len(rg)))
            steps.append({"kind": kind, "tensors": outs, "inputs": inputs, "w": w, "retain": retain})
    return {"spec": spec, "roles": roles, "steps": steps, "sched": gen_sched(rng, spec), "twin_sched": gen_sched(rng, spec), "stratum": None if forced is None else [[t[0], t[1], t[2]] for t in forced]}


def evidence_extra(agg_stats, sets, tier):
    seen = set(sets.get("forced_sequences", []))
    return {
        "step_type_alphabet": len(STEP_TYPES),
        "sequences_of_up_to_3_step_types_total": N_SEQ,
        "sequences_covered_by_stratification": len(seen),
        "exhaustive_part": f"thorough tier: the first 8*{N_SEQ} runs are dealt over all {N_SEQ} sequences of 1..3 step types (api x retain_graph x chunk class), each with fresh random worlds" if tier == "thorough" else "quick tier samples sequences",
    }


def _split(world, names, w):
    out, k = [], 0
    for n in names:
        t = world.t[n]
        c = t.numel()
        out.append(torch.tensor(w[k : k + c], dtype=world.dtype).reshape(t.shape))
        k += c
    return out


def _torch_step(world, st):
    """A plain torch.autograd step executed identically on world and twin."""
    tensors = [world.t[n] for n in st["tensors"]]
    gts = _split(world, st["tensors"], st["w"])
    inputs = None if st.get("inputs") is None else [world.t[n] for n in st["inputs"]]
    try:
        if st["kind"] == "torch_backward":
            torch.autograd.backward(tensors, grad_tensors=gts, inputs=inputs, retain_graph=st["retain"])
        else:
            torch.autograd.grad(tensors, inputs, grad_outputs=gts, retain_graph=st["retain"], allow_unused=True)
        return {"ok": True, "exc": None, "msg": None}
    except Exception as e:  # noqa: BLE001
        return {"ok": False, "exc": type(e).__name__, "msg": str(e)[:200]}


def _acc(x, g):
    if x.grad is None:
        x.grad = g.detach().clone()
    else:
        x.grad = x.grad + g.detach()


def _twin_jd_step(twin, call, model, spec):
    """torch.autograd-only equivalent of a torchjd step, with the same retain flag."""
    retain = bool(call["retain"])
    try:
        if call["api"] == "backward":
            m = sum(numel(model.values[n].shape) for n in call["tensors"])
            w = list(ref_weights_linear(call["agg"], m))
            inputs = call["inputs"] if call.get("inputs") is not None else default_inputs_backward(model, call["tensors"])
            if not inputs:
                return {"ok": True, "exc": None, "msg": None}
            # autograd.grad + manual accumulation so that requested-but-unreachable inputs get zeros,
            # as C01/C06 require of torchjd; the engine work (and hence the freeing) is the same
            gs = torch.autograd.grad([twin.t[n] for n in call["tensors"]], [twin.t[n] for n in _dedupe(inputs)], grad_outputs=_split(twin, call["tensors"], w), retain_graph=retain, allow_unused=True)
            for n, g in zip(_dedupe(inputs), gs):
                _acc(twin.t[n], g if g is not None else torch.zeros_like(twin.t[n]))
        else:
            cutmodel = Model(spec, cut=call["features"])
            dshared, dtasks = default_params_mtl(model, cutmodel, call["losses"], call["features"])
            shared = call["shared"] if call.get("shared") is not None else dshared
            tasks = call["tasks"] if call.get("tasks") is not None else dtasks
            m = len(call["losses"])
            w = list(ref_weights_linear(call["agg"], m))
            feats = [twin.t[n] for n in call["features"]]
            gsum = [torch.zeros_like(f) for f in feats]
            for i, loss in enumerate(call["losses"]):
                tp = [twin.t[n] for n in tasks[i]]
                gs = torch.autograd.grad(twin.t[loss], tp + feats, retain_graph=retain, allow_unused=True)
                for p, g in zip(tp, gs[: len(tp)]):
                    _acc(p, g if g is not None else torch.zeros_like(p))
                for j, g in enumerate(gs[len(tp) :]):
                    if g is not None:
                        gsum[j] = gsum[j] + w[i] * g
            if shared:
                sh = [twin.t[n] for n in shared]
                gs = torch.autograd.grad(feats, sh, grad_outputs=gsum, retain_graph=retain, allow_unused=True)
                for p, g in zip(sh, gs):
                    _acc(p, g if g is not None else torch.zeros_like(p))
        return {"ok": True, "exc": None, "msg": None}
    except Exception as e:  # noqa: BLE001
        return {"ok": False, "exc": type(e).__name__, "msg": str(e)[:200]}


def _dedupe(names):
    out = []
    for n in names:
        if n not in out:
            out.append(n)
    return out


def freed_vector(world, roots, targets):
    vec = []
    for r in roots:
        t = world.t[r]
        if not t.requires_grad:
            continue
        for x in targets:
            tx = world.t[x]
            if not tx.requires_grad or tx is t:
                continue
            try:
                torch.autograd.grad(t, tx, grad_outputs=torch.ones_like(t), retain_graph=True, allow_unused=True)
                vec.append(0)
            except RuntimeError:
                vec.append(1)
    return vec


def _one_stage_equivalent(spec, model, call, roles):
    """Sufficient condition under which one autograd.backward(losses, w, inputs=all params) traverses
    exactly the nodes mtl_backward traverses."""
    cutmodel = Model(spec, cut=call["features"])
    dshared, dtasks = default_params_mtl(model, cutmodel, call["losses"], call["features"])
    shared = call["shared"] if call.get("shared") is not None else dshared
    tasks = call["tasks"] if call.get("tasks") is not None else dtasks
    if not shared:
        return None
    trunk = set(roles["trunk_leaves"])
    for f in call["features"]:
        if not any(s in model.values[f].anc for s in shared):
            return None
        if not any(f in cutmodel.values[loss].anc for loss in call["losses"]):
            return None  # a feature no loss depends on: torchjd still sweeps it (zero cotangent), one-stage does not
    for i, loss in enumerate(call["losses"]):
        anc_cut = cutmodel.values[loss].anc
        if any(s in anc_cut for s in shared):
            return None  # a shared parameter reaches the loss around the features
        for j, tp in enumerate(tasks):
            for p in tp:
                if p in trunk:
                    return None
                if j != i and p not in tasks[i] and p in model.values[loss].anc:
                    return None
        # every feature used by this head must be differentiated in both forms: fine (features -> shared)
    allp = _dedupe([p for tp in tasks for p in tp] + list(shared))
    return allp


def execute(scn):
    spec = scn["spec"]
    eps = spec_eps(spec)
    model = Model(spec)
    world = World(spec, scn["sched"])
    twin = World(spec, scn["twin_sched"], twin_offset=1 << 20)
    stats, events, viols, sets = {}, [], [], {}
    roots = [o for n in spec["nodes"] for o in n["out"] if model.values[o].rq]
    feats = [f for f in scn["roles"]["features"] if f in model.values] if scn.get("roles") else []
    targets = [leaf["name"] for leaf in spec["leaves"] if leaf["rg"]] + feats
    tol = {n: np.zeros(model.values[n].shape) for n in world.leaf_names}
    outcome_sig = []
    multi_sweep_no_retain = False
    for si, st in enumerate(scn["steps"]):
        if st["kind"] == "jd":
            call = st["call"]
            from ..world import require_valid

            require_valid(model, call)
            if call["api"] == "backward":
                exp = expect_backward(model, call, eps)
                upd = exp["updates"]
                m = exp["m"]
            else:
                cm = Model(spec, cut=call["features"])
                exp = expect_mtl(model, cm, call, eps)
                upd = dict(exp["shared_updates"])
                upd.update(exp["task_updates"])
                m = exp["m"]
            world.log.clear()
            ow, _ = run_call(world, call)
            stats["api_calls"] = stats.get("api_calls", 0) + 1
            stats["sweeps"] = stats.get("sweeps", 0) + count_sweeps(world.log.events)
            k = call.get("chunk")
            if not call["retain"] and k is not None and k < m:
                multi_sweep_no_retain = True
                stats["reach.multi_sweep_with_retain_false"] = stats.get("reach.multi_sweep_with_retain_false", 0) + 1
            ot = _twin_jd_step(twin, call, model, spec)
            for n, (u, t) in upd.items():
                tol[n] = tol[n] + 2 * t
            third_params = None
            if call["api"] == "mtl" and not call["retain"] and si == 0:
                third_params = _one_stage_equivalent(spec, model, call, scn["roles"])
        else:
            from ..world import InvalidScenario

            if any((o not in model.values) or (not model.values[o].rq) or model.values[o].is_leaf for o in st["tensors"]):
                raise InvalidScenario("torch step on a non-differentiable tensor")
            ow = _torch_step(world, st)
            ot = _torch_step(twin, st)
            third_params = None
            stats["torch_steps"] = stats.get("torch_steps", 0) + 1
        events.append([si, st["kind"], ow["ok"], ow["exc"], ot["ok"], ot["exc"]])
        outcome_sig.append([st["kind"], st.get("call", {}).get("api"), st.get("call", st).get("retain"), st.get("call", {}).get("chunk"), ow["ok"]])
        if ow["ok"] != ot["ok"] or (not ow["ok"] and ow["exc"] != ot["exc"] and "RuntimeError" in (ow["exc"], ot["exc"])):
            viols.append({
                "clause": "outcome_differs_from_autograd_twin", "step": si,
                "details": {"torchjd": ow, "twin": ot, "step": {k2: v for k2, v in st.items() if k2 != "call"}, "call": st.get("call")},
                "key": {"world_ok": ow["ok"]},
            })
            break
        if not ow["ok"]:
            stats["reach.history_ended_by_runtimeerror_on_both"] = 1
            break
        # (2) grads
        for n in world.leaf_names:
            a, b = world.grad_array(n), twin.grad_array(n)
            if (a is None) != (b is None):
                viols.append({"clause": "grad_noneness_differs_from_twin", "step": si, "details": {"leaf": n, "torchjd_none": a is None}, "key": {}})
                continue
            if a is None:
                continue
            bad = compare(a, b, tol[n] + 8 * eps * (np.abs(a) + np.abs(b)) + 1e-290)
            if bad:
                viols.append({"clause": "grad_differs_from_twin", "step": si, "details": {"leaf": n, **bad}, "key": {}})
        # (3) freed-probes
        fw = freed_vector(world, roots, targets)
        ft = freed_vector(twin, roots, targets)
        events.append([si, "freed", fw])
        if any(fw):
            stats["reach.some_subgraph_freed"] = stats.get("reach.some_subgraph_freed", 0) + 1
        if fw != ft:
            idx = [i for i, (x, y) in enumerate(zip(fw, ft)) if x != y]
            viols.append({
                "clause": "freed_state_differs_from_autograd_twin", "step": si,
                "details": {"n_pairs": len(fw), "differing_pairs": len(idx), "torchjd_freed_but_twin_usable": sum(1 for i in idx if fw[i] == 1), "twin_freed_but_torchjd_usable": sum(1 for i in idx if fw[i] == 0), "call": st.get("call")},
                "key": {},
            })
        # one-stage form of mtl_backward (first step only, retain_graph=False)
        if third_params is not None and not viols:
            stats["reach.one_stage_twin"] = stats.get("reach.one_stage_twin", 0) + 1
            third = World(spec, scn["twin_sched"], twin_offset=1 << 21)
            call = st["call"]
            w = list(ref_weights_linear(call["agg"], len(call["losses"])))
            try:
                torch.autograd.backward([third.t[x] for x in call["losses"]], grad_tensors=[torch.tensor(x, dtype=third.dtype) for x in w], inputs=[third.t[p] for p in third_params], retain_graph=False)
                f3 = freed_vector(third, roots, targets)
                if f3 != fw:
                    idx = [i for i, (x, y) in enumerate(zip(fw, f3)) if x != y]
                    viols.append({"clause": "freed_state_differs_from_one_stage_autograd_backward", "step": si, "details": {"differing_pairs": len(idx), "torchjd_usable_but_autograd_freed": sum(1 for i in idx if fw[i] == 0)}, "key": {}})
            except RuntimeError:
                pass
        if viols:
            break
    if scn.get("stratum"):
        sets["forced_sequences"] = [json.dumps(scn["stratum"])]
    sets["step_kinds"] = ["/".join(f"{s[0]}:{s[1]}:{'R' if s[2] else 'F'}" for s in outcome_sig)]
    sig = digest([op_sig(spec), outcome_sig])
    uniq = {}
    for v in viols:
        uniq.setdefault(v["clause"], v)
    return {
        "violations": list(uniq.values()), "events": events, "stats": stats, "sets": sets, "sig": sig,
        "nontrivial": len(scn["steps"]) >= 2 or multi_sweep_no_retain,
    }


def shrink(scn):
    steps = scn["steps"]
    for i in range(len(steps) - 1, -1, -1):
        s = copy.deepcopy(scn)
        del s["steps"][i]
        if s["steps"]:
            yield s
    for i, st in enumerate(steps):
        if st["kind"] == "jd":
            c = st["call"]
            if c.get("chunk") is not None:
                s = copy.deepcopy(scn)
                s["steps"][i]["call"]["chunk"] = None
                yield s
            if c["agg"]["kind"] != "Sum":
                s = copy.deepcopy(scn)
                s["steps"][i]["call"]["agg"] = {"kind": "Sum"}
                yield s
            if c["api"] == "backward" and c.get("inputs") and len(c["inputs"]) > 1:
                for j in range(len(c["inputs"])):
                    s = copy.deepcopy(scn)
                    del s["steps"][i]["call"]["inputs"][j]
                    yield s
    protected = []
    for st in steps:
        if st["kind"] == "jd":
            c = st["call"]
            if c["api"] == "backward":
                protected += list(c["tensors"]) + list(c.get("inputs") or [])
            else:
                protected += list(c["losses"]) + list(c["features"]) + [p for tp in (c["tasks"] or []) for p in tp] + list(c["shared"] or [])
        else:
            protected += list(st["tensors"]) + list(st.get("inputs") or [])
    for spec2 in spec_candidates(scn["spec"], protected):
        if any(n["op"] == "neg" for n in spec2["nodes"]) and not any(n["op"] == "neg" for n in scn["spec"]["nodes"]):
            continue  # saved-tensor ops carry the observation; do not replace them
        s = copy.deepcopy(scn)
        s["spec"] = spec2
        yield s
