"""C12 -- default parameter discovery finds exactly the leaves that matter (defaulted vs explicit)."""
import copy

import numpy as np

from ..autogen import apply_pre_grads, count_sweeps, gen_chunk, gen_det_agg, gen_pre_grads, op_sig
from ..model import Model, numel
from ..seeds import digest
from ..shrinkspec import spec_candidates
from ..spec import gen_mtl, gen_program, pick_outputs
from ..world import spec_eps, EPS, World, compare, default_inputs_backward, default_params_mtl, expect_backward, expect_mtl, gen_sched, run_call

ID = "C12"
LEVEL = "exploration"
BUDGET = {
    "quick": {"runs": 4000, "wall": 240, "chunk": 25},
    "thorough": {"runs": 150000, "wall": 3400, "chunk": 100},
}
RULE = (
    "each run instantiates one random program twice. World: backward(inputs=None) or mtl_backward with "
    "tasks_params and/or shared_params omitted. Twin: the same call with the explicit sets computed from the "
    "generator's own DAG (backward: requires-grad leaves reachable from the tensors through differentiable "
    "paths; mtl: leaves reachable from the features / from each loss by paths avoiding the features). Every "
    "leaf's .grad must agree in None-ness and value, under different S1 schedules for world and twin; when the "
    "model's default sets overlap, the defaulted call must be rejected (raise) and leave every .grad bitwise "
    "unchanged. Programs contain diamonds, deep chains, detached sub-graphs, non-grad leaves, multi-output ops "
    "and leaves reached both through and around the features. S3 history (about a third of the runs, world side "
    "only, result wiped): an earlier defaulted call on the same retained graph from other roots or with another "
    "exclusion (backward on losses/features before mtl_backward, mtl_backward before backward on the losses) -- "
    "a discovery must not depend on discoveries made before. Non-trivial: >=2 discovered leaves; distinct = "
    "digest of (ops, shapes, api, which lists are defaulted, discovered sets)."
)
REAL = ["torchjd.autojac._utils._get_leaf_tensors / _get_descendant_accumulate_grads", "torchjd.autojac.backward / mtl_backward", "torch.autograd graph (grad_fn.next_functions)"]
STUBS = ["torch.Tensor.__hash__ (S1 seam)", "discovered-leaf insertion order (S1b seam; content of the set untouched)"]
ASSUMPTIONS = [
    "oracle for discovery = the generator's DAG (anc sets of the NumPy model); shares no code with the grad_fn walk",
    "features are never outputs of multi-output ops (sibling exclusion, DESIGN §2.3)",
    "world and twin both run torchjd; values agree within twice the model's error bound (column order may differ)",
]


def generate(rng, tier, index):
    dtype = "float64" if rng.random() < 0.8 else "float32"
    if rng.random() < 0.45:
        spec, g = gen_program(rng, dtype, p_probe=0.05)
        outs = pick_outputs(rng, g)
        if not outs:
            return None
        m = sum(numel(g.shape[o]) for o in outs)
        call = {
            "api": "backward", "tensors": outs, "inputs": None, "agg": gen_det_agg(rng, m, dtype),
            "chunk": gen_chunk(rng, m), "retain": rng.random() < 0.5,
        }
        roles = None
        prelude = None
        if rng.random() < 0.3:
            # S3 history: an earlier default discovery from other roots of the same (retained) graph
            outs0 = pick_outputs(rng, g)
            if outs0:
                m0 = sum(numel(g.shape[o]) for o in outs0)
                prelude = {"api": "backward", "tensors": outs0, "inputs": None, "agg": gen_det_agg(rng, m0, dtype), "chunk": None, "retain": True}
    else:
        r = gen_mtl(rng, dtype, p_probe=0.05)
        if r is None:
            return None
        spec, roles, g = r
        if rng.random() < 0.1:
            # a 0-element feature (empty slice / all-false mask) computed from a leaf nothing else uses: it
            # still belongs to "the leaves from which features were computed" and must receive zeros
            spec = copy.deepcopy(spec)
            roles = copy.deepcopy(roles)
            spec["leaves"].append({"name": "e0", "shape": [2], "rg": True, "vals": [0.5, -1.25]})
            spec["nodes"].insert(0, {"op": "scale", "in": ["e0"], "out": ["e1"], "p": {"c": 3.0}})
            spec["nodes"].insert(1, {"op": "slice", "in": ["e1"], "out": ["e2"], "p": {"dim": 0, "start": 0, "stop": 0}})
            roles["features"] = list(roles["features"]) + ["e2"]
            roles["trunk_leaves"] = list(roles["trunk_leaves"]) + ["e0"]
        t = len(roles["losses"])
        losses = list(roles["losses"])
        rng.shuffle(losses)
        feats = list(roles["features"])
        rng.shuffle(feats)
        which = rng.choice(["both", "both", "tasks", "shared"])
        call = {
            "api": "mtl", "losses": losses, "features": feats, "features_single": len(feats) == 1 and rng.random() < 0.5,
            "tasks": None, "shared": None, "agg": gen_det_agg(rng, t, dtype), "chunk": gen_chunk(rng, t),
            "retain": rng.random() < 0.5, "which": which,
        }
        from .c02 import head_crosses_trunk

        # a defaulted task parameter that also feeds the features makes the head sweep cross the trunk:
        # outside C13's retain_graph=False scope, so such calls retain the graph
        if head_crosses_trunk(spec, {**call, "tasks": None}):
            call["retain"] = True
        prelude = None
        u = rng.random()
        if u < 0.15:
            # S3 history: the losses were differentiated by a defaulted backward() before (no exclusion)
            sub = [x for x in losses if rng.random() < 0.7] or list(losses)
            prelude = {"api": "backward", "tensors": sub, "inputs": None, "agg": gen_det_agg(rng, len(sub), dtype), "chunk": None, "retain": True}
        elif u < 0.25:
            # ... or the features were
            mf = sum(numel(g.shape[f]) for f in feats if f in g.shape)
            if mf >= 1:
                prelude = {"api": "backward", "tensors": list(feats), "inputs": None, "agg": gen_det_agg(rng, mf, dtype), "chunk": None, "retain": True}
        elif u < 0.4:
            # ... or the other way round: a defaulted mtl_backward (discovery with the features excluded) came
            # first and the checked call is a defaulted backward() on the losses
            prelude = {**copy.deepcopy(call), "retain": True}
            prelude.pop("which", None)
            call = {"api": "backward", "tensors": list(losses), "inputs": None, "agg": gen_det_agg(rng, t, dtype), "chunk": gen_chunk(rng, t), "retain": rng.random() < 0.5}
    scn = {"spec": spec, "roles": roles, "call": call, "sched": gen_sched(rng, spec), "twin_sched": gen_sched(rng, spec), "pre_grads": gen_pre_grads(rng, spec)}
    if prelude is not None:
        scn["prelude"] = prelude
    return scn


def execute(scn):
    spec, call = scn["spec"], copy.deepcopy(scn["call"])
    eps = spec_eps(spec)
    model = Model(spec)
    stats, events, viols, sets = {}, [], [], {}
    explicit = copy.deepcopy(call)
    expect_reject = False
    if call["api"] == "backward":
        dset = default_inputs_backward(model, call["tensors"])
        explicit["inputs"] = list(dset)
        discovered = [dset]
        exp = expect_backward(model, explicit, eps)
        tolmap = {n: tol for n, (u, tol) in exp["updates"].items()}
        ambiguous = exp["ambiguous"]
    else:
        cutmodel = Model(spec, cut=call["features"])
        dshared, dtasks = default_params_mtl(model, cutmodel, call["losses"], call["features"])
        which = call.pop("which", "both")
        explicit.pop("which", None)
        overlap = any(p in dshared for tp in dtasks for p in tp)
        if which == "both":
            explicit["shared"], explicit["tasks"] = list(dshared), [list(tp) for tp in dtasks]
            expect_reject = overlap
        elif which == "tasks":
            # shared given explicitly (the default-shared leaves not claimed by a task), tasks defaulted
            claimed = {p for tp in dtasks for p in tp}
            sh = [n for n in dshared if n not in claimed]
            call["shared"] = list(sh)
            explicit["shared"], explicit["tasks"] = list(sh), [list(tp) for tp in dtasks]
        else:
            tk = [[p for p in tp if p not in dshared] for tp in dtasks]
            call["tasks"] = [list(tp) for tp in tk]
            explicit["shared"], explicit["tasks"] = list(dshared), [list(tp) for tp in tk]
        discovered = [dshared] + dtasks
        if not expect_reject:
            exp = expect_mtl(model, cutmodel, explicit, eps)
            tolmap = {n: tol for n, (u, tol) in list(exp["task_updates"].items()) + list(exp["shared_updates"].items())}
            ambiguous = exp["ambiguous"]
        if overlap:
            stats["reach.default_sets_overlap"] = 1

    if not expect_reject:
        from ..world import require_valid

        require_valid(model, explicit)
    world = World(spec, scn["sched"])
    apply_pre_grads(world, scn.get("pre_grads", {}))
    stats["api_calls"] = 0
    if scn.get("prelude"):
        # history only on the world side: the twin has never seen a discovery. What the earlier call
        # deposited is wiped (its outcome is not judged here), the graph is retained.
        pre = copy.deepcopy(scn["prelude"])
        pre["retain"] = True
        out0, _ = run_call(world, pre)
        stats["api_calls"] += 1
        stats["reach.history_prior_discovery"] = 1
        stats["reach.history_prior_%s_then_%s" % (pre["api"], call["api"])] = 1
        events.append(["prelude", out0["ok"], out0["exc"]])
        for n in world.leaf_names:
            world.t[n].grad = None
        apply_pre_grads(world, scn.get("pre_grads", {}))
    before = world.grads()
    out, _ = run_call(world, call)
    stats["api_calls"] += 1
    stats["sweeps"] = count_sweeps(world.log.events)
    if out.get("discover_calls"):
        stats["reach.discover_seam"] = 1
    events.append(["world", out["ok"], out["exc"]])
    sig = digest([op_sig(spec), call["api"], call.get("tasks") is None, call.get("shared") is None, discovered])
    nontrivial = sum(len(d) for d in discovered) >= 2

    if expect_reject:
        if out["ok"]:  # "the call is rejected": any exception is a rejection
            viols.append({"clause": "overlapping_defaults_not_rejected", "step": "world", "details": {"outcome": out, "default_shared": discovered[0], "default_tasks": discovered[1:]}, "key": {}})
        after = world.grads()
        for n in world.leaf_names:
            if before[n] != after[n]:
                viols.append({"clause": "rejected_default_call_wrote_grad", "step": "world", "details": {"leaf": n}, "key": {}})
        stats["reach.overlap_rejected"] = 1
        return {"violations": viols, "events": events, "stats": stats, "sets": sets, "sig": sig, "nontrivial": nontrivial}

    if not out["ok"]:
        viols.append({"clause": "valid_default_call_raised", "step": "world", "details": out, "key": {"exc": out["exc"], "msg": (out.get("msg") or "")[:40]}})
        return {"violations": viols, "events": events, "stats": stats, "sets": sets, "sig": sig, "nontrivial": nontrivial}

    twin = World(spec, scn["twin_sched"], twin_offset=1 << 20)
    apply_pre_grads(twin, scn.get("pre_grads", {}))
    out2, _ = run_call(twin, explicit)
    stats["api_calls"] += 1
    events.append(["twin", out2["ok"], out2["exc"]])
    if not out2["ok"]:
        viols.append({"clause": "explicit_twin_call_raised", "step": "twin", "details": out2, "key": {"exc": out2["exc"], "msg": (out2.get("msg") or "")[:40]}})
        return {"violations": viols, "events": events, "stats": stats, "sets": sets, "sig": sig, "nontrivial": nontrivial}

    for n in world.leaf_names:
        a, b = world.grad_array(n), twin.grad_array(n)
        if (a is None) != (b is None):
            viols.append({"clause": "discovered_set_differs", "step": "compare", "details": {"leaf": n, "defaulted_call_grad_is_none": a is None, "explicit_call_grad_is_none": b is None}, "key": {}})
            continue
        if a is None or ambiguous:
            continue
        tol = tolmap.get(n)
        if tol is None:
            tol = np.zeros_like(a)
        bad = compare(a, b, 2 * tol + 4 * eps * (np.abs(a) + np.abs(b)))
        if bad:
            viols.append({"clause": "defaulted_vs_explicit_value", "step": "compare", "details": {"leaf": n, **bad}, "key": {}})
    events.append(["grads", digest({n: (None if world.t[n].grad is None else world.t[n].grad.detach().numpy().tobytes()) for n in world.leaf_names})])
    # reach probes on the program shape
    ops = [n["op"] for n in spec["nodes"]]
    if any(model.values[f].val.size == 0 for f in call.get("features", [])):
        stats["reach.zero_element_feature"] = 1
    if "detach" in ops:
        stats["reach.detached_subgraph"] = 1
    if any(o in ops for o in ("unbind", "split")):
        stats["reach.multi_output_op"] = 1
    if any(not leaf["rg"] for leaf in spec["leaves"]):
        stats["reach.leaf_not_requiring_grad"] = 1
    rg_leaves = [leaf["name"] for leaf in spec["leaves"] if leaf["rg"]]
    flat = {p for d in discovered for p in d}
    if any(n not in flat for n in rg_leaves):
        stats["reach.undiscovered_rg_leaf"] = 1
    return {"violations": viols, "events": events, "stats": stats, "sets": sets, "sig": sig, "nontrivial": nontrivial}


def shrink(scn):
    call = scn["call"]
    if scn.get("prelude"):
        s = copy.deepcopy(scn)
        del s["prelude"]
        yield s
    if scn.get("pre_grads"):
        s = copy.deepcopy(scn)
        s["pre_grads"] = {}
        yield s
    if call.get("chunk") is not None:
        s = copy.deepcopy(scn)
        s["call"]["chunk"] = None
        yield s
    if call["agg"]["kind"] != "Sum":
        s = copy.deepcopy(scn)
        s["call"]["agg"] = {"kind": "Sum"}
        yield s
    if call["api"] == "backward":
        if len(call["tensors"]) > 1:
            for i in range(len(call["tensors"])):
                s = copy.deepcopy(scn)
                del s["call"]["tensors"][i]
                s["call"]["agg"] = {"kind": "Sum"}
                yield s
        protected = list(call["tensors"])
    else:
        if len(call["losses"]) > 1:
            for i in range(len(call["losses"])):
                s = copy.deepcopy(scn)
                del s["call"]["losses"][i]
                s["call"]["agg"] = {"kind": "Sum"}
                yield s
        if len(call["features"]) > 1:
            for i in range(len(call["features"])):
                s = copy.deepcopy(scn)
                del s["call"]["features"][i]
                yield s
        protected = list(call["losses"]) + list(call["features"])
    if scn.get("prelude"):
        pre = scn["prelude"]
        protected = protected + list(pre.get("tensors") or []) + list(pre.get("losses") or []) + list(pre.get("features") or [])
    for spec2 in spec_candidates(scn["spec"], protected):
        s = copy.deepcopy(scn)
        s["spec"] = spec2
        if s["call"]["agg"]["kind"] != "Sum":
            s["call"]["agg"] = {"kind": "Sum"}
        yield s
