"""C07 -- parallel_chunk_size is a pure performance knob (probe nodes observe the engine; F7)."""
import copy
import math

import numpy as np

from ..autogen import apply_pre_grads, gen_det_agg, gen_pre_grads, op_sig
from ..model import Model, numel
from ..seeds import digest
from ..shrinkspec import spec_candidates
from ..spec import Gen, LEAF_SHAPES, gen_mtl
from ..world import spec_eps, EPS, World, compare, expect_backward, expect_mtl, gen_sched, run_call
from . import c02 as C02

ID = "C07"
LEVEL = "exploration"


def _pairs(mmax):
    out = []
    for m in range(1, mmax + 1):
        for k in [None] + list(range(1, m + 3)):
            out.append((m, k))
    return out


PAIRS_QUICK = _pairs(6)
PAIRS_THOROUGH = _pairs(12)
BUDGET = {
    "quick": {"runs": len(PAIRS_QUICK) * 60, "wall": 300, "chunk": 13},
    "thorough": {"runs": len(PAIRS_THOROUGH) * 800, "wall": 3400, "chunk": 57},
}
RULE = (
    "run indices are dealt round-robin over ALL (m,k) pairs with m<=6 (quick) / m<=12 (thorough), k in "
    "{None,1..m+2}: for each pair a random program with probe nodes (identity autograd.Functions planted on "
    "edges, some saving tensors, some hostile to vmap) is generated with exactly m rows (backward: 1..3 output "
    "tensors; mtl_backward: m tasks, m<=6). The real call runs with chunk size k and retain_graph both ways; "
    "(1) the update equals the NumPy model, and the same world re-run with k=1 and k=None does too; (2) every "
    "probe on a differentiable path from the differentiated tensors to a requested parameter logs exactly "
    "ceil(m/k) sweeps of sizes [k,..,k,remainder] (head probes of mtl_backward: never a batched event -- how "
    "often a head is traversed is not part of C07); (3) with "
    "k=1 or m=1 no probe sees a batched cotangent and hostile probes do not break the call. Non-trivial: >=1 "
    "probe on a differentiated path; distinct = digest of (m, k, api, ops, probe positions, retain)."
)
REAL = ["torchjd.autojac Jac._differentiate / _get_jac_matrix_chunk chunking", "torch.vmap", "torch.autograd engine (CPU)"]
STUBS = ["probe nodes: simulator-owned torch.autograd.Function instances inside the user program (S5), optionally vmap-hostile (F7)", "torch.Tensor.__hash__ (S1 seam)"]
ASSUMPTIONS = [
    "torch._C._functorch.is_batchedtensor classifies a cotangent as batched; a probe executes once per engine sweep that needs it",
    "which probes a sweep needs is derived from the spec's DAG: probe output downstream-reaches a root and the probe input upstream-reaches a target",
    "a hostile probe with k>=2 and m>=2 may make the call fail (vmap's documented limitation): such runs assert only that k=1 works",
]


# ----------------------------------------------------------------------------------------------
def diff_ancestors(spec, model):
    """name -> set of value names with a differentiable path to it (incl. itself)."""
    anc = {}
    for leaf in spec["leaves"]:
        anc[leaf["name"]] = {leaf["name"]}
    for node in spec["nodes"]:
        for o in node["out"]:
            s = {o}
            if node["op"] != "detach" and model.values[o].rq:
                for i in node["in"]:
                    if model.values[i].rq:
                        s |= anc[i]
            anc[o] = s
    return anc


def expected_probe_events(spec, model, call, m):
    """tag -> list of expected (mode, batch) events in order."""
    anc = diff_ancestors(spec, model)
    k = call.get("chunk")
    kk = m if k is None else k
    n_sweeps = math.ceil(m / kk)
    sizes = [kk] * (n_sweeps - 1) + [m - kk * (n_sweeps - 1)]
    jac_events = [("seq", None) if s == 1 else ("vmap", s) for s in sizes]
    probes = [(n["p"]["tag"], n["in"][0], n["out"][0]) for n in spec["nodes"] if n["op"] == "probe" and model.values[n["in"][0]].rq]
    exp = {}
    if call["api"] == "backward":
        from ..world import default_inputs_backward

        inputs = call["inputs"] if call.get("inputs") is not None else default_inputs_backward(model, call["tensors"])
        hook_tags = {n["p"]["tag"] for n in spec["nodes"] if n["op"] == "probe" and n["p"].get("hook")}
        for tag, pin, pout in probes:
            on_root = any(pout in anc[r] for r in call["tensors"])
            reaches = any(t in anc[pin] for t in inputs)
            exp[tag] = (0, list(jac_events) if (on_root and reaches) else [])
    else:
        from ..world import default_params_mtl

        cutmodel = Model(spec, cut=call["features"])
        dshared, dtasks = default_params_mtl(model, cutmodel, call["losses"], call["features"])
        shared = call["shared"] if call.get("shared") is not None else dshared
        tasks = call["tasks"] if call.get("tasks") is not None else dtasks
        for tag, pin, pout in probes:
            head = 0
            for i, loss in enumerate(call["losses"]):
                targets = list(tasks[i]) + list(call["features"])
                if pout in anc[loss] and any(t in anc[pin] for t in targets):
                    head += 1
            on_root = any(pout in anc[f] for f in call["features"])
            is_root_hook = pout in call["features"] and any(n["op"] == "probe" and n["p"].get("hook") and n["p"]["tag"] == tag for n in spec["nodes"])
            jac = list(jac_events) if (on_root and any(t in anc[pin] for t in shared) and len(shared) > 0) else []
            exp[tag] = (head, jac)
    return exp, sizes


def _gen_backward_world(rng, dtype, m, p_hostile):
    g = Gen(rng, dtype, p_probe=0.4, p_hostile=p_hostile)
    n_leaves = rng.choice([1, 2, 2, 3])
    for i in range(n_leaves):
        g.add_leaf(rng.choice(LEAF_SHAPES), True if i == 0 else rng.random() < 0.9)
    g.seal_leaves()
    pool = [leaf["name"] for leaf in g.spec["leaves"]]
    g.grow(pool, rng.choice([2, 3, 4, 5, 6]))
    srcs = [n for n in pool if g.rq(n) and numel(g.shape[n]) <= 12 and g.producer[n] != "leaf"]
    if not srcs:
        return None
    # partition m into 1..3 output tensors
    parts = [m]
    if m >= 2 and rng.random() < 0.5:
        a = rng.randint(1, m - 1)
        parts = [a, m - a]
        if parts[1] >= 2 and rng.random() < 0.4:
            b = rng.randint(1, parts[1] - 1)
            parts = [a, b, parts[1] - b]
    outs = []
    for c in parts:
        src = g._maybe_probe(rng.choice(srcs))
        shapes = [(c,)] + ([(c, 1)] if c > 1 else [()]) + ([(2, c // 2)] if c % 2 == 0 and c >= 4 else [])
        o = g.adapter(src, rng.choice(shapes))
        o = g._maybe_probe(o)
        if o in outs:
            o = g._emit("scale", [o], {"c": 1.5})[0]
        outs.append(o)
    return g.spec, outs


def generate(rng, tier, index):
    pairs = PAIRS_QUICK if tier == "quick" else PAIRS_THOROUGH
    m, k = pairs[index % len(pairs)]
    dtype = "float64" if rng.random() < 0.8 else "float32"
    p_hostile = 0.25 if rng.random() < 0.4 else 0.0
    retain = rng.random() < 0.5
    if m <= 6 and rng.random() < 0.4:
        r = gen_mtl(rng, dtype, p_probe=0.4, p_hostile=p_hostile, n_tasks=m)
        if r is None:
            return None
        spec, roles, g = r
        call = C02.gen_mtl_call(rng, spec, roles, dtype, families=["Constant", "Sum", "Mean", "UPGrad"])
        call["chunk"] = k
        call["retain"] = retain
        C02.fix_retain(spec, call)
    else:
        r = _gen_backward_world(rng, dtype, m, p_hostile)
        if r is None:
            return None
        spec, outs = r
        rg = [leaf["name"] for leaf in spec["leaves"] if leaf["rg"]]
        inputs = rng.sample(rg, rng.randint(1, len(rg))) if rng.random() < 0.6 else None
        call = {"api": "backward", "tensors": outs, "inputs": inputs, "agg": gen_det_agg(rng, m, dtype, families=["Constant", "Sum", "Mean", "UPGrad"]), "chunk": k, "retain": retain}
        from ..world import gen_forms

        call["forms"] = gen_forms(rng)
        roles = None
    return {"spec": spec, "roles": roles, "call": call, "m": m, "sched": gen_sched(rng, spec), "pre_grads": gen_pre_grads(rng, spec, p=0.2)}


def _run(spec, sched, call, pre, model, exp_updates, eps, stats, tag):
    world = World(spec, sched)
    apply_pre_grads(world, pre)
    before = {n: world.grad_array(n) for n in world.leaf_names}
    out, _ = run_call(world, call)
    stats["api_calls"] = stats.get("api_calls", 0) + 1
    log = [e for e in world.log.events if e[0] == "sweep"]
    stats["sweeps"] = stats.get("sweeps", 0) + len(log)
    bad = []
    if out["ok"]:
        for n, (upd, tol) in exp_updates.items():
            a = world.grad_array(n)
            if a is None:
                bad.append({"param": n, "problem": "grad is None"})
                continue
            dep = a - (before[n] if before[n] is not None else 0.0)
            b = compare(dep, upd, tol + 4 * eps * np.abs(a))
            if b:
                bad.append({"param": n, **b})
    return out, log, bad


def execute(scn):
    spec, call, m = scn["spec"], scn["call"], scn["m"]
    eps = spec_eps(spec)
    model = Model(spec)
    stats, events, viols, sets = {}, [], [], {}
    from ..world import require_valid

    require_valid(model, call)
    if call["api"] == "backward":
        exp = expect_backward(model, call, eps)
        updates = exp["updates"]
        assert exp["m"] == m, (exp["m"], m)
    else:
        cutmodel = Model(spec, cut=call["features"])
        exp = expect_mtl(model, cutmodel, call, eps)
        updates = dict(exp["shared_updates"])
        updates.update(exp["task_updates"])
    k = call.get("chunk")
    hostile_tags = [n["p"]["tag"] for n in spec["nodes"] if n["op"] == "probe" and n["p"].get("hostile")]
    exp_events, sizes = expected_probe_events(spec, model, call, m)
    hostile_batched = any(t in hostile_tags and any(ev[0] == "vmap" for ev in evs[1]) for t, evs in exp_events.items())
    sequential = (k == 1) or (m == 1)

    out, log, bad = _run(spec, scn["sched"], call, scn.get("pre_grads", {}), model, updates, eps, stats, "main")
    events.append(["main", out["ok"], out["exc"], [list(e[1:]) for e in log]])
    if hostile_tags:
        stats["fault.vmap_hostile_node_F7"] = 1
    if not out["ok"]:
        if hostile_batched and out["exc"] == "RuntimeError":
            stats["reach.hostile_probe_failed_under_vmap_allowed"] = 1
        else:
            viols.append({"clause": "valid_call_raised", "step": "main", "details": {**out, "m": m, "k": k, "retain": call["retain"], "sequential": sequential}, "key": {"exc": out["exc"], "msg": (out.get("msg") or "")[:40]}})
    else:
        for b in bad:
            viols.append({"clause": "value_differs_for_chunk_size", "step": "main", "details": {"m": m, "k": k, **b}, "key": {}})
        # (2) sweep schedule per probe
        got = {}
        for e in log:
            got.setdefault(e[1], []).append((e[2], e[3]))
        hook_probe_tags = {n["p"]["tag"] for n in spec["nodes"] if n["op"] == "probe" and n["p"].get("hook")}
        for tag, (head, jac) in exp_events.items():
            g = got.get(tag, [])
            # C07 fixes the number and sizes of the sweeps between the differentiated tensors and the
            # parameters (the Jac part: the LAST len(jac) events of a probe); how often a head of
            # mtl_backward is traversed is not stated, only that single rows are never batched
            jpart = g[len(g) - len(jac):] if jac else []
            hpart = g[: len(g) - len(jac)] if jac else g
            bad_jac = len(g) < len(jac) or jpart != jac
            bad_head = any(x[0] == "vmap" for x in hpart)
            if call["api"] == "backward" and hpart:
                bad_jac = True  # no other differentiation exists in backward(): extra sweeps are extra sweeps
            if tag in hook_probe_tags:
                # user tensor hooks: whether torch runs the hook of a tensor that is itself a root / not needed
                # is torch's business; only "never batched when sequential is promised" and "no sweep larger
                # than k" are asserted for them
                kk = m if k is None else k
                bad_jac = any(x[0] == "vmap" and (x[1] or 0) > kk for x in g)
                bad_head = sequential and any(x[0] == "vmap" for x in g)
            if bad_jac or bad_head:
                clause = "sweep_schedule"
                if (sequential and any(x[0] == "vmap" for x in g)) or bad_head:
                    clause = "batched_differentiation_when_sequential_promised"
                viols.append({"clause": clause, "step": "main", "details": {"probe": tag, "m": m, "k": k, "expected_jac_sweeps": jac, "expected_single_row_head_sweeps": head, "got": g}, "key": {}})
            if jac or head:
                stats["reach.probe_on_differentiated_path"] = stats.get("reach.probe_on_differentiated_path", 0) + 1
        if any(x[0] == "vmap" for g in got.values() for x in g):
            stats["reach.vmap_sweep_seen"] = 1
        if len(sizes) > 1 and sizes[-1] != sizes[0]:
            stats["reach.remainder_chunk"] = 1
        if len(sizes) > 1 and not call["retain"]:
            stats["reach.multi_sweep_with_retain_false"] = 1
        if sequential and hostile_tags and any(exp_events.get(t, (0, []))[0] or exp_events.get(t, (0, []))[1] for t in hostile_tags):
            stats["reach.hostile_probe_survived_sequential"] = 1
    # (1) across chunk sizes: k=1 and k=None on fresh instantiations
    if not viols:
        for k2 in (1, None):
            if k2 == k:
                continue
            call2 = copy.deepcopy(call)
            call2["chunk"] = k2
            ev2, _ = expected_probe_events(spec, model, call2, m)
            hb2 = any(t in hostile_tags and any(e[0] == "vmap" for e in evs[1]) for t, evs in ev2.items())
            out2, log2, bad2 = _run(spec, scn["sched"], call2, scn.get("pre_grads", {}), model, updates, eps, stats, f"k={k2}")
            events.append([f"k={k2}", out2["ok"], out2["exc"]])
            if not out2["ok"]:
                if not (hb2 and out2["exc"] == "RuntimeError"):
                    viols.append({"clause": "valid_call_raised", "step": f"k={k2}", "details": {**out2, "m": m, "k": k2}, "key": {"exc": out2["exc"], "msg": (out2.get("msg") or "")[:40]}})
                continue
            for b in bad2:
                viols.append({"clause": "value_differs_for_chunk_size", "step": f"k={k2}", "details": {"m": m, "k": k2, **b}, "key": {}})
            if k2 == 1 and any(e[2] == "vmap" for e in log2):
                viols.append({"clause": "batched_differentiation_when_sequential_promised", "step": "k=1", "details": {"m": m}, "key": {}})
    sets["mk_pairs"] = [f"{m},{k}"]
    probe_pos = [(n["p"]["tag"], n["in"][0], bool(n["p"].get("hostile")), bool(n["p"].get("saves"))) for n in spec["nodes"] if n["op"] == "probe"]
    sig = digest([m, k, call["api"], call["retain"], op_sig(spec), probe_pos])
    uniq = {}
    for v in viols:
        uniq.setdefault(v["clause"], v)
    return {
        "violations": list(uniq.values()), "events": events, "stats": stats, "sets": sets, "sig": sig,
        "nontrivial": any(v[0] > 0 or len(v[1]) > 0 for v in exp_events.values()),
    }


def evidence_extra(agg_stats, sets, tier):
    pairs = PAIRS_QUICK if tier == "quick" else PAIRS_THOROUGH
    seen = set(sets.get("mk_pairs", []))
    want = {f"{m},{k}" for m, k in pairs}
    return {"mk_pairs_total": len(want), "mk_pairs_covered": len(want & seen), "mk_pairs_missing": sorted(want - seen)[:20]}


def shrink(scn):
    call = scn["call"]
    if scn.get("pre_grads"):
        s = copy.deepcopy(scn)
        s["pre_grads"] = {}
        yield s
    if call["agg"]["kind"] != "Sum":
        s = copy.deepcopy(scn)
        s["call"]["agg"] = {"kind": "Sum"}
        yield s
    if call["api"] == "backward":
        if call.get("inputs") and len(call["inputs"]) > 1:
            for i in range(len(call["inputs"])):
                s = copy.deepcopy(scn)
                del s["call"]["inputs"][i]
                yield s
        protected = list(call["tensors"]) + list(call.get("inputs") or [])
        keep = []
    else:
        protected = list(call["losses"]) + list(call["features"])
        keep = [p for tp in (call["tasks"] or []) for p in tp] + list(call["shared"] or [])
    # turn probes into plain probes, then remove them
    for i, n in enumerate(scn["spec"]["nodes"]):
        if n["op"] == "probe" and (n["p"].get("hostile") or n["p"].get("saves")):
            s = copy.deepcopy(scn)
            s["spec"]["nodes"][i]["p"]["hostile"] = False
            s["spec"]["nodes"][i]["p"]["saves"] = False
            yield s
    for spec2 in spec_candidates(scn["spec"], protected, keep_leaves=keep):
        if [n for n in spec2["nodes"] if n["op"] == "neg" and any(o["op"] == "probe" and o["out"] == n["out"] for o in scn["spec"]["nodes"])]:
            continue  # do not turn probes into neg: the observation would be lost
        s = copy.deepcopy(scn)
        s["spec"] = spec2
        yield s
