"""C08 (layout clause) -- how parameters are laid out in the Jacobian, and parameters that influence
nothing, never change the update of the others. Column order of the Jacobian IS the S1 schedule."""
import copy

import numpy as np

from .. import seams
from ..aggs import RecordingAggregator, make_agg, ref_krum
from ..autogen import gen_pref, gen_weights, op_sig
from ..model import Model, numel
from ..seeds import digest
from ..shrinkspec import spec_candidates
from ..spec import Gen, LEAF_SHAPES, pick_outputs
from ..world import spec_eps, EPS, World, default_inputs_backward, gen_sched, run_call

ID = "C08"
LEVEL = "exploration"
BUDGET = {
    "quick": {"runs": 4000, "wall": 300, "chunk": 20},
    "thorough": {"runs": 120000, "wall": 3400, "chunk": 100},
}
EXACT = ["Mean", "Sum", "Constant", "TrimmedMean", "Krum", "Random"]
CONT = ["UPGrad", "DualProj", "PCGrad"]
COND = ["IMTLG", "AlignedMTL", "ConFIG", "CAGrad", "MGDA"]
RULE = (
    "a run = one random program with 1..3 extra 'ghost' leaves (requires_grad, influence nothing) and one "
    "backward() configuration, executed three times on fresh instantiations: (a) inputs listed in one order "
    "under schedule s1, (b) another listing order under schedule s2 (another set-iteration order, hence another "
    "column order of the Jacobian handed to the aggregator), (c) with the ghost leaves inserted into `inputs` "
    "under s3 (zero columns; in 15% of the runs additionally one WIDE ghost tensor of 2e4..2e5 elements). Aggregators: Mean, Sum, Constant, TrimmedMean, Krum (score-gap margin), UPGrad, "
    "DualProj (with preference vectors), PCGrad and Random with the S2 seam replaying the same draws, and -- "
    "only when the model Jacobian has full row rank with sigma_min/sigma_max > 1e-3 -- IMTL-G, Aligned-MTL, "
    "ConFIG, CAGrad, MGDA (argmin-gap margin). The deposits on the real leaves must agree across (a),(b),(c) "
    "and ghosts must receive zeros. Non-trivial: >=2 requested inputs whose effective column order differs "
    "between (a) and (b); distinct = digest of (ops, shapes, aggregator, the two effective orders, ghost positions)."
)
REAL = ["torchjd.autojac.backward (set(inputs), ordered key sets, unite/disunite)", "all torchjd aggregators except GradDrop and NashMTL", "quadprog, Clarabel via cvxpy, LAPACK"]
STUBS = ["torch.Tensor.__hash__ (S1 seam)", "torch.randperm/randn replayed by the scheduler for PCGrad/Random (S2 seam)"]
ASSUMPTIONS = [
    "only the layout clause of C08 is decided (column permutation / zero-column invariance as produced by the S1 schedule); A(JQ)=A(J)Q and the row-span clause are not",
    "tolerance for weights@J-type aggregators: 16*(m+n+8)*eps relative to the scale of J and A(J) (coordinate j only involves column j); 1e-6 (float64 only) for QP/pinv/conic ones",
    "8% of the runs are 'tall clustered' worlds: 26..32 near-identical rows in float32 with Krum/TrimmedMean/Mean (the robust-aggregation setting, where distances are tiny relative to norms)",
    "pinv/eigh/conic/Frank-Wolfe based aggregators only on Jacobians with unambiguous numerical rank; Krum/MGDA near-ties assert nothing",
    "GradDrop is excluded: its draw is per column, so the layout legitimately re-labels the randomness",
]


class _NoKeep(list):
    def append(self, x):  # the recorded Jacobians are not needed here (and can be large)
        pass


class ReplayChooser:
    def __init__(self, draws):
        self.perms = [list(p) for p in draws.get("perms", [])]
        self.normals = list(draws.get("normals", []))
        self.pi = 0
        self.used = 0

    def randperm(self, n):
        self.used += 1
        if self.pi < len(self.perms) and len(self.perms[self.pi]) == n:
            p = self.perms[self.pi]
            self.pi += 1
            return p
        return list(range(n))

    def rand(self, n):
        self.used += 1
        return [0.5] * n

    def randn(self, n):
        self.used += 1
        v = self.normals[:n]
        return v + [0.0] * (n - len(v))


def mgda_margin(J, max_iters=100, epsilon=0.001):
    """Reference Frank-Wolfe run on the model Jacobian; returns the smallest relative gap between the
    best and second-best argmin candidates over the iterations (near-ties make the path ambiguous)."""
    G = J @ J.T
    m = G.shape[0]
    alpha = np.ones(m) / m
    gap = np.inf
    scale = max(float(np.abs(G).max()), 1e-300)
    for _ in range(max_iters):
        v = G @ alpha
        order = np.argsort(v)
        if m > 1:
            gap = min(gap, float(v[order[1]] - v[order[0]]) / scale)
        t = order[0]
        e = np.zeros(m)
        e[t] = 1.0
        a = alpha @ (G @ e)
        b = alpha @ (G @ alpha)
        c = e @ (G @ e)
        for x, y in ((c, a), (b, a)):
            gap = min(gap, abs(float(x - y)) / scale)
        if c <= a:
            gamma = 1.0
        elif b <= a:
            gamma = 0.0
        else:
            gamma = (b - a) / (b + c - 2 * a)
        alpha = (1 - gamma) * alpha + gamma * e
        if gamma < epsilon:
            break
    return gap


def _generate_tall_clustered(rng):
    """A federation-like Jacobian through backward(): 26..32 output rows that are near-identical (large
    common component + small noise), float32, several 1-d parameter tensors so that the listing order /
    schedule permutes whole column blocks. Krum / TrimmedMean / Mean are the aggregators of that setting."""
    dtype = "float32"
    g = Gen(rng, dtype)
    sizes = [rng.randint(1, 4) for _ in range(rng.choice([2, 3, 4]))]
    real = [g.add_leaf((sz,), True) for sz in sizes]
    ghosts = [g.add_leaf((rng.randint(1, 3),), True) for _ in range(rng.choice([1, 2]))]
    g.seal_leaves()
    (src,) = g._emit("cat", real, {"dim": 0}) if len(real) > 1 else (real[0],)
    n = sum(sizes)
    m = rng.randint(26, 32)
    base = [rng.choice([-1, 1]) * rng.uniform(500, 3000) for _ in range(n)]
    W = [[float(np.float32(b + rng.gauss(0, 1))) for b in base] for _ in range(m)]
    (out,) = g._emit("lin", [src], {"W": W, "shape": [m]})
    spec = g.spec
    kind = rng.choice(["Krum", "Krum", "Krum", "TrimmedMean", "Mean"])
    agg = {"kind": kind}
    if kind == "Krum":
        agg.update({"f": rng.randint(0, 4), "k": rng.choice([1, 1, 2])})
    elif kind == "TrimmedMean":
        agg["b"] = rng.randint(1, 4)
    inputs = list(real)
    rng.shuffle(inputs)
    listing_b = list(inputs)
    rng.shuffle(listing_b)
    if listing_b == inputs and len(inputs) > 1:
        listing_b.reverse()
    listing_c = list(inputs)
    for gh in ghosts:
        listing_c.insert(rng.randint(0, len(listing_c)), gh)
    draws = {"perms": [], "normals": []}
    return {
        "wide_ghost": None, "tall_clustered": True,
        "spec": spec, "tensors": [out], "agg": agg, "chunk": rng.choice([None, None, 8]),
        "inputs_a": inputs, "inputs_b": listing_b, "inputs_c": listing_c, "ghosts": ghosts, "draws": draws,
        "scheds": [gen_sched(rng, spec), gen_sched(rng, spec), gen_sched(rng, spec)],
    }


def generate(rng, tier, index):
    if rng.random() < 0.08:
        return _generate_tall_clustered(rng)
    dtype = "float64" if rng.random() < 0.8 else "float32"
    g = Gen(rng, dtype)
    n_leaves = rng.choice([2, 2, 3, 3, 4, 5])
    real = []
    for i in range(n_leaves):
        real.append(g.add_leaf(rng.choice(LEAF_SHAPES), True if i < 2 else rng.random() < 0.9))
    ghosts = [g.add_leaf(rng.choice(LEAF_SHAPES[:12]), True) for _ in range(rng.choice([1, 1, 2, 3]))]
    g.seal_leaves()
    pool = list(real)
    g.grow(pool, rng.choice([2, 3, 4, 5, 6, 8]))
    outs = pick_outputs(rng, g, max_rows=6)
    if not outs:
        return None
    spec = g.spec
    model = Model(spec)
    rg = [n for n in real if g.rq(n)]
    inputs = rng.sample(rg, rng.randint(max(1, len(rg) - 1), len(rg)))
    J, _ = model.jac_rows(outs, inputs)
    m = J.shape[0]
    fams = list(EXACT)
    if dtype == "float64":
        fams += CONT + CONT
        sv = np.linalg.svd(J, compute_uv=False) if J.size else np.zeros(0)
        if m <= J.shape[1] and sv.size and sv[-1] / max(sv[0], 1e-300) > 1e-3:
            fams += COND + COND
    want_wide = rng.random() < 0.2
    if want_wide and dtype == "float64" and rng.random() < 0.8:
        # column-count dependence is a risk of the Gramian/SVD/pinv based aggregators: bias towards them
        fams = [f for f in fams if f in CONT + COND] or fams
    kind = rng.choice(fams)
    if kind == "TrimmedMean" and m < 3:
        kind = "Mean"
    if kind == "Krum" and m < 3:
        kind = "Sum"
    agg = {"kind": kind}
    if kind == "Constant":
        agg["w"] = gen_weights(rng, m)
    elif kind in ("UPGrad", "DualProj", "AlignedMTL", "ConFIG"):
        agg["pref"] = gen_pref(rng, m) if rng.random() < 0.6 else None
    elif kind == "TrimmedMean":
        agg["b"] = rng.randint(1, (m - 1) // 2)
    elif kind == "Krum":
        f = rng.randint(0, m - 3)
        agg.update({"f": f, "k": rng.randint(1, max(1, m - f - 2))})
    elif kind == "CAGrad":
        agg["c"] = rng.choice([0.0, 0.25, 0.5, 1.0])
    draws = {"perms": [rng.sample(range(m), m) for _ in range(m)], "normals": [max(-5.5, min(5.5, rng.gauss(0, 1))) for _ in range(m)]}
    listing_b = list(inputs)
    rng.shuffle(listing_b)
    listing_c = list(inputs)
    for gh in ghosts:
        listing_c.insert(rng.randint(0, len(listing_c)), gh)
    # a WIDE ghost: a large parameter tensor that influences nothing (frozen embedding table, unused head):
    # created outside the program, only in execution (c); 1e5-ish zero columns
    wide = None
    if want_wide:
        wide = {"numel": rng.choice([20000, 60000, 200000]), "pos": rng.randint(0, len(listing_c)), "rank": 5000 + rng.randrange(500)}
    return {
        "wide_ghost": wide,
        "spec": spec, "tensors": outs, "agg": agg, "chunk": rng.choice([None, None, 1, 2]),
        "inputs_a": inputs, "inputs_b": listing_b, "inputs_c": listing_c, "ghosts": ghosts, "draws": draws,
        "scheds": [gen_sched(rng, spec), gen_sched(rng, spec), gen_sched(rng, spec)],
    }


def _run(scn, inputs, sched, stats, wide=None):
    import torch

    world = World(scn["spec"], sched)
    inputs = list(inputs)
    if wide is not None:
        g = torch.zeros(int(wide["numel"]), dtype=world.dtype, requires_grad=True)
        world.t["__wide_ghost__"] = g
        world.names.append("__wide_ghost__")
        world._name_of[id(g)] = "__wide_ghost__"
        seams.set_ranks([(g, int(wide["rank"]) * (16 if sched.get("mode") == "aligned" else 1))])
        inputs.insert(min(int(wide["pos"]), len(inputs)), "__wide_ghost__")
        stats["reach.wide_ghost_columns"] = stats.get("reach.wide_ghost_columns", 0) + 1
    call = {"api": "backward", "tensors": scn["tensors"], "inputs": inputs, "agg": scn["agg"], "chunk": scn.get("chunk"), "retain": False}
    rec = RecordingAggregator(make_agg(scn["agg"], world.dtype))
    rec.seen = _NoKeep()
    seam = seams.RngSeam(ReplayChooser(scn["draws"]))
    with seam.armed():
        out, _ = run_call(world, call, agg=rec)
    stats["api_calls"] = stats.get("api_calls", 0) + 1
    if seam.record:
        stats["reach.rng_seam_reached"] = stats.get("reach.rng_seam_reached", 0) + 1
    eff = seams.effective_order([world.t[n] for n in inputs])
    eff_names = [inputs[i] for i in eff]
    return world, out, rec, eff_names


def execute(scn):
    spec = scn["spec"]
    eps = spec_eps(spec)
    model = Model(spec)
    stats, events, viols, sets = {}, [], [], {}
    kind = scn["agg"]["kind"]
    from ..world import require_valid

    require_valid(model, {"api": "backward", "tensors": scn["tensors"], "inputs": scn["inputs_c"], "agg": scn["agg"], "chunk": scn.get("chunk")})
    J, _ = model.jac_rows(scn["tensors"], scn["inputs_a"])
    m = J.shape[0]
    ambiguous = False
    if kind == "Krum":
        _, _, margin, _ = ref_krum(J, int(scn["agg"]["f"]), int(scn["agg"].get("k", 1)))
        ambiguous = margin < (1e-6 if spec["dtype"] == "float64" else 2e-3)
    if kind == "MGDA":
        ambiguous = mgda_margin(J) < 1e-7
    if ambiguous:
        stats["reach.ambiguous_skipped"] = 1
    runs = []
    for tag, inputs, sched in (("a", scn["inputs_a"], scn["scheds"][0]), ("b", scn["inputs_b"], scn["scheds"][1]), ("c", scn["inputs_c"], scn["scheds"][2])):
        world, out, rec, eff = _run(scn, inputs, sched, stats, wide=scn.get("wide_ghost") if tag == "c" else None)
        events.append([tag, out["ok"], out["exc"], eff])
        if not out["ok"]:
            viols.append({"clause": "valid_call_raised", "step": tag, "details": out, "key": {"exc": out["exc"], "msg": (out.get("msg") or "")[:40]}})
            return {"violations": viols, "events": events, "stats": stats, "sig": None, "nontrivial": False}
        runs.append((world, rec, eff))
    wa, ra, effa = runs[0]
    scaleJ = float(np.abs(J).max()) if J.size else 0.0
    vec_scale = max(float(np.abs(wa.grad_array(n)).max()) for n in scn["inputs_a"])
    if kind in EXACT:
        # weights @ J: coordinate j only involves column j, so the layout can only change the result through
        # the kernel's blocking: a few ulps of sum_i |w_i J_ij|
        rtol = max(1e-12, 16.0 * (m + J.shape[1] + 8) * eps)
        if scn.get("tall_clustered"):
            stats["reach.tall_clustered_jacobian"] = 1
    elif kind == "CAGrad":
        rtol = 1e-4
    else:
        rtol = 1e-6
    tol = rtol * (scaleJ * max(1.0, _wscale(scn["agg"], m)) + vec_scale) + 1e-290
    if not ambiguous:
        for tag, (w2, r2, eff2) in (("b", runs[1]), ("c", runs[2])):
            for n in scn["inputs_a"]:
                a, b = wa.grad_array(n), w2.grad_array(n)
                if b is None:
                    viols.append({"clause": f"layout_changes_update_{tag}", "step": tag, "details": {"input": n, "problem": "grad is None"}, "key": {}})
                    continue
                d = float(np.abs(a - b).max()) if a.size else 0.0
                if not np.all(np.isfinite(b)) or d > tol:
                    viols.append({"clause": "column_order_changes_update" if tag == "b" else "zero_columns_change_update", "step": tag, "details": {"input": n, "max_abs_diff": d, "tol": tol, "agg": kind, "order_a": effa, "order_other": eff2}, "key": {}})
        wc = runs[2][0]
        for gh in list(scn["ghosts"]) + (["__wide_ghost__"] if scn.get("wide_ghost") else []):
            gv = wc.grad_array(gh)
            if gv is None:
                viols.append({"clause": "ghost_leaf_got_no_zero_grad", "step": "c", "details": {"ghost": gh}, "key": {}})
            elif float(np.abs(gv).max()) > (0.0 if kind in EXACT or kind in ("UPGrad", "DualProj", "PCGrad", "IMTLG", "AlignedMTL", "CAGrad", "MGDA") else tol):
                viols.append({"clause": "ghost_leaf_got_nonzero_grad", "step": "c", "details": {"ghost": gh, "max_abs": float(np.abs(gv).max()), "agg": kind}, "key": {}})
    effb = runs[1][2]
    differs = effa != effb
    if differs:
        stats["reach.different_effective_column_order"] = 1
    effc = runs[2][2]
    if any(effc.index(gh) < len(effc) - len(scn["ghosts"]) - (1 if scn.get("wide_ghost") else 0) for gh in scn["ghosts"]):
        stats["reach.ghost_columns_not_at_the_end"] = 1
    sets["agg_kind"] = [kind]
    sets["colperm_pair"] = [f"{effa}->{effb}"]
    events.append(["grads", digest({n: wa.t[n].grad.detach().numpy().tobytes() for n in scn["inputs_a"]})])
    sig = digest([op_sig(spec), kind, effa, effb, effc])
    uniq = {}
    for v in viols:
        uniq.setdefault(v["clause"], v)
    return {"violations": list(uniq.values()), "events": events, "stats": stats, "sets": sets, "sig": sig, "nontrivial": len(scn["inputs_a"]) >= 2 and differs}


def _wscale(agg, m):
    if agg["kind"] == "Constant":
        return float(np.abs(agg["w"]).sum())
    if agg.get("pref"):
        return float(np.abs(agg["pref"]).sum())
    if agg["kind"] == "Sum":
        return float(m)
    return 1.0


def shrink(scn):
    if scn.get("wide_ghost"):
        s = copy.deepcopy(scn)
        s["wide_ghost"] = None
        yield s
        if scn["wide_ghost"]["numel"] > 20000:
            s = copy.deepcopy(scn)
            s["wide_ghost"]["numel"] = scn["wide_ghost"]["numel"] // 2
            yield s
    if scn.get("chunk") is not None:
        s = copy.deepcopy(scn)
        s["chunk"] = None
        yield s
    if len(scn["ghosts"]) > 1:
        for gh in scn["ghosts"]:
            s = copy.deepcopy(scn)
            s["ghosts"].remove(gh)
            s["inputs_c"].remove(gh)
            yield s
    if len(scn["inputs_a"]) > 1:
        for n in scn["inputs_a"]:
            s = copy.deepcopy(scn)
            for key in ("inputs_a", "inputs_b", "inputs_c"):
                s[key].remove(n)
            yield s
    if scn["agg"]["kind"] not in ("Sum",):
        s = copy.deepcopy(scn)
        s["agg"] = {"kind": "Sum"}
        yield s
    if len(scn["tensors"]) > 1 and scn["agg"]["kind"] in ("Sum", "Mean"):
        for i in range(len(scn["tensors"])):
            s = copy.deepcopy(scn)
            del s["tensors"][i]
            yield s
    protected = list(scn["tensors"]) + list(scn["inputs_c"])
    for spec2 in spec_candidates(scn["spec"], protected):
        s = copy.deepcopy(scn)
        s["spec"] = spec2
        yield s
