"""C01 -- backward() deposits the aggregation of the true Jacobian into .grad (under S1 schedules)."""
import copy

import numpy as np

from .. import seams
from ..autogen import apply_pre_grads, count_sweeps, gen_chunk, gen_det_agg, gen_pre_grads, op_sig
from ..model import Model, numel
from ..seeds import digest
from ..shrinkspec import spec_candidates
from ..spec import gen_program, pick_outputs
from ..world import spec_eps, World, compare, expect_backward, gen_sched, identity_sched, run_call

ID = "C01"
LEVEL = "exploration"
BUDGET = {
    "quick": {"runs": 4000, "wall": 240, "chunk": 25},
    "thorough": {"runs": 200000, "wall": 3400, "chunk": 100},
}
RULE = (
    "each run draws, from one PRNG seeded by SHA-256(VERIF_SEED, property, tier, run index), a program "
    "spec (DAG of differentiable ops over leaves of 0-d..4-d shapes with reuse, unused and non-grad "
    "leaves), 1..4 output tensors (<=12 rows), a subset/order of inputs or None, a deterministic "
    "aggregator, a chunk size, pre-existing .grad content and an S1 schedule (tensor hash ranks); the "
    "real backward() runs and every requested input's .grad increment is compared with the NumPy "
    "forward-mode model; the same scenario is re-run with another listing order and schedule. A case is "
    "non-trivial when the Jacobian has >=2 rows and >=2 columns; distinct = distinct digests of "
    "(op sequence, leaf shapes, call configuration, effective column permutation)."
)
REAL = [
    "torchjd.autojac.backward and every transform behind it", "torchjd.aggregation (Constant/Sum/Mean/UPGrad/TrimmedMean/Krum)",
    "torch.autograd engine (CPU)", "torch.vmap", "quadprog via qpsolvers",
]
STUBS = [
    "torch.Tensor.__hash__ (S1 seam: rank table decided by the scheduler)",
    "insertion order of the discovered default leaf set (S1b seam around _get_leaf_tensors; content untouched)",
    "probe autograd.Function nodes are simulator-owned user code",
]
ASSUMPTIONS = [
    "reference = NumPy float64 forward-mode interpreter of the same spec (validated against torch.autograd in selftest model)",
    "numeric tolerance: 256*(m+depth+2)*eps*(running |.| bound + 1e-3*max bound); nonlinear aggregators compared in float64 only",
    "Krum cases with relative score gap < 1e-6 are counted as ambiguous and assert nothing",
    "graphs contain no retain_grad() tensors and only smooth ops (documented limitation / kink-free oracle)",
]


def generate(rng, tier, index):
    dtype = "float64" if rng.random() < 0.8 else "float32"
    spec, g = gen_program(rng, dtype, p_probe=0.08)
    outs = pick_outputs(rng, g)
    if not outs:
        return None
    m = sum(numel(g.shape[o]) for o in outs)
    rg = [leaf["name"] for leaf in spec["leaves"] if leaf["rg"]]
    r_in = rng.random()
    if r_in < 0.03:
        inputs = []  # the empty subset: nothing to differentiate, nothing may change
    elif r_in < 0.72:
        k = rng.randint(1, len(rg))
        inputs = rng.sample(rg, k)
    else:
        inputs = None
    call = {
        "api": "backward", "tensors": outs, "inputs": inputs,
        "agg": gen_det_agg(rng, m, dtype), "chunk": gen_chunk(rng, m), "retain": rng.random() < 0.5,
        "tensors_single": rng.random() < 0.5,
    }
    from ..world import gen_forms

    call["forms"] = gen_forms(rng)
    if rng.random() < 0.12:
        call["agg_hook"] = rng.choice([-2.0, 0.5, 3.0])  # a forward hook registered on the user's aggregator
    alt_inputs = None
    if inputs is not None:
        alt_inputs = list(inputs)
        rng.shuffle(alt_inputs)
        if len(alt_inputs) > 1 and alt_inputs == inputs:
            alt_inputs.reverse()
    return {
        "spec": spec, "call": call, "sched": gen_sched(rng, spec), "pre_grads": gen_pre_grads(rng, spec),
        "alt": {"inputs": alt_inputs, "sched": gen_sched(rng, spec)},
    }


def _one_execution(spec, sched, call, pre_grads, model, stats, events, tag):
    """Runs the real call in a fresh world; returns (world, deposits dict name -> ndarray, violation or None)."""
    world = World(spec, sched)
    stats["reach.preloaded_grad"] = stats.get("reach.preloaded_grad", 0) + apply_pre_grads(world, pre_grads)
    before = {n: world.grad_array(n) for n in world.leaf_names}
    out, _ = run_call(world, call)
    stats["api_calls"] = stats.get("api_calls", 0) + 1
    stats["sweeps"] = stats.get("sweeps", 0) + count_sweeps(world.log.events)
    if any(e[2] == "vmap" for e in world.log.events):
        stats["reach.vmap_sweep_seen"] = stats.get("reach.vmap_sweep_seen", 0) + 1
    events.append([tag, out["ok"], out["exc"]])
    if not out["ok"]:
        return world, None, {"clause": "valid_call_raised", "step": tag, "details": out, "key": {"exc": out["exc"], "msg": (out.get("msg") or "")[:40]}}
    dep = {}
    for n in world.leaf_names:
        a = world.grad_array(n)
        b = before[n]
        if a is None:
            dep[n] = None
        else:
            dep[n] = a - (b if b is not None else 0.0)
    events.append([tag, "grads", digest({n: (None if world.t[n].grad is None else world.t[n].grad.detach().numpy().tobytes()) for n in world.leaf_names})])
    return world, dep, None


def execute(scn):
    spec = scn["spec"]
    call = scn["call"]
    model = Model(spec)
    stats, events, viols, sets = {}, [], [], {}
    eps = spec_eps(spec)
    from ..world import require_valid

    require_valid(model, call)
    exp = expect_backward(model, call, eps)
    m = exp["m"]
    ncols = exp["J"].shape[1]

    world, dep, v = _one_execution(spec, scn["sched"], call, scn.get("pre_grads", {}), model, stats, events, "main")
    if v:
        viols.append(v)
        return {"violations": viols, "events": events, "stats": stats, "sig": None, "nontrivial": False}
    req = exp["inputs"]
    if call.get("inputs") is not None and len(call["inputs"]) == 0:
        stats["reach.empty_inputs"] = 1
        for n in world.leaf_names:
            if dep[n] is not None and (world.grad_array(n) is None or np.any(dep[n] != 0)):
                viols.append({"clause": "deposit", "step": "main", "details": {"input": n, "problem": "empty `inputs` but a .grad changed"}, "key": {}})
    eff = seams.effective_order([world.t[n] for n in (call["inputs"] if call.get("inputs") is not None else req)])
    events.append(["effective_order", eff])
    if eff != sorted(eff):
        stats["reach.hash_order_ne_listing_order"] = 1
    sets["colperm"] = [f"{len(eff)}:{eff}"]
    sets["agg_kind"] = [call["agg"]["kind"]]
    sets["chunk_cfg"] = [f"m={m},k={call.get('chunk')}"]
    if call.get("chunk") is not None and m % call["chunk"] != 0 and call["chunk"] < m:
        stats["reach.remainder_chunk"] = 1
    if exp["ambiguous"]:
        stats["reach.ambiguous_skipped"] = 1
    else:
        for n in req:
            upd, tol = exp["updates"][n]
            got = dep[n]
            if got is None:
                viols.append({"clause": "deposit", "step": "main", "details": {"input": n, "problem": "grad is None"}, "key": {}})
                continue
            g_after = np.abs(world.grad_array(n))
            bad = compare(got, upd, tol + 4 * eps * g_after)
            if bad:
                viols.append({"clause": "deposit", "step": "main", "details": {"input": n, **bad}, "key": {}})
            if not np.any(model.jac_rows(call["tensors"], [n])[0]):
                stats["reach.non_influencing_input"] = stats.get("reach.non_influencing_input", 0) + 1

    # ---- the same call with another listing order of inputs under another schedule
    alt = scn.get("alt")
    if alt and not viols:
        call2 = copy.deepcopy(call)
        if alt.get("inputs") is not None and call.get("inputs") is not None:
            call2["inputs"] = [n for n in alt["inputs"] if n in call["inputs"]] + [n for n in call["inputs"] if n not in alt["inputs"]]
        world2, dep2, v2 = _one_execution(spec, alt["sched"], call2, scn.get("pre_grads", {}), model, stats, events, "alt")
        if v2:
            viols.append(v2)
        elif not exp["ambiguous"]:
            for n in req:
                upd, tol = exp["updates"][n]
                if dep2[n] is None:
                    viols.append({"clause": "order_independence", "step": "alt", "details": {"input": n, "problem": "grad is None"}, "key": {}})
                    continue
                g_after = np.abs(world2.grad_array(n)) + np.abs(world.grad_array(n))
                bad = compare(dep2[n], dep[n], 2 * tol + 4 * eps * g_after)
                if bad:
                    viols.append({"clause": "order_independence", "step": "alt", "details": {"input": n, **bad}, "key": {}})
            eff2 = seams.effective_order([world2.t[n] for n in (call2["inputs"] if call2.get("inputs") is not None else req)])
            events.append(["effective_order_alt", eff2])

    sig = digest([op_sig(spec), call["agg"]["kind"], call.get("chunk"), call.get("inputs") is None, eff, m])
    return {
        "violations": viols, "events": events, "stats": stats, "sets": sets, "sig": sig,
        "nontrivial": m >= 2 and ncols >= 2,
    }


def shrink(scn):
    call = scn["call"]
    # configuration first
    if scn.get("pre_grads"):
        s = copy.deepcopy(scn)
        s["pre_grads"] = {}
        yield s
    if scn.get("alt"):
        s = copy.deepcopy(scn)
        s["alt"] = None
        yield s
    if call.get("chunk") is not None:
        s = copy.deepcopy(scn)
        s["call"]["chunk"] = None
        yield s
    if call["agg"]["kind"] not in ("Sum",):
        s = copy.deepcopy(scn)
        s["call"]["agg"] = {"kind": "Sum"}
        yield s
    if scn["sched"] != identity_sched(scn["spec"]):
        s = copy.deepcopy(scn)
        s["sched"] = identity_sched(scn["spec"])
        yield s
    if len(call["tensors"]) > 1:
        for i in range(len(call["tensors"])):
            s = copy.deepcopy(scn)
            del s["call"]["tensors"][i]
            if s["call"]["agg"]["kind"] == "Constant":
                s["call"]["agg"] = {"kind": "Sum"}
            yield s
    if call.get("inputs") and len(call["inputs"]) > 1:
        for i in range(len(call["inputs"])):
            s = copy.deepcopy(scn)
            del s["call"]["inputs"][i]
            yield s
    protected = list(call["tensors"]) + list(call.get("inputs") or [])
    for spec2 in spec_candidates(scn["spec"], protected):
        s = copy.deepcopy(scn)
        s["spec"] = spec2
        names = {leaf["name"] for leaf in spec2["leaves"]} | {o for n in spec2["nodes"] for o in n["out"]}
        s["sched"]["ranks"] = {k: v for k, v in s["sched"]["ranks"].items() if k in names}
        if s.get("alt"):
            s["alt"]["sched"]["ranks"] = {k: v for k, v in s["alt"]["sched"]["ranks"].items() if k in names}
        s["pre_grads"] = {k: v for k, v in s.get("pre_grads", {}).items() if k in names}
        if s["call"]["agg"]["kind"] == "Constant":
            m2 = sum(numel(Model(spec2).values[o].shape) for o in call["tensors"])
            if m2 != len(s["call"]["agg"]["w"]):
                continue
        yield s
