"""C20 -- a call rejected for its arguments changes nothing (fault enumeration x S1 schedules)."""
import copy

from .. import seams
from ..autogen import apply_pre_grads, gen_chunk, gen_det_agg, gen_pre_grads, op_sig
from ..model import MULTI_OUT, Model, numel
from ..seeds import digest
from ..shrinkspec import spec_candidates
from ..spec import gen_mtl, gen_program, pick_outputs
from ..world import World, gen_sched, run_call
from . import c02 as C02

ID = "C20"
LEVEL = "fault_enumeration"
BUDGET = {
    "quick": {"runs": 640, "wall": 300, "chunk": 5},
    "thorough": {"runs": 15000, "wall": 3400, "chunk": 20},
}
RULE = (
    "each run draws a world (random program, some leaves pre-loaded with .grad) and a valid backward or "
    "mtl_backward call, then ENUMERATES every fault kind of the statement at every position it can take "
    "(on base calls with explicit lists as well as with one or both parameter groups defaulted: chunk<=0; empty tensors/features/losses; non-scalar loss at each index; len(losses)!=len(tasks_params) "
    "both ways; shared/task overlap for each (param, task); duplicate tensor/feature/parameter at each pair of "
    "positions; a non-leaf tensor or a leaf with requires_grad=False at each position of inputs / shared_params "
    "/ tasks_params[i]; a parameter frozen (requires_grad_(False)) after an earlier successful call on the same graph; for backward every rejecting aggregator: wrong Constant/pref/leak length, too few rows "
    "for Krum/TrimmedMean, a simulator-owned aggregator raising ValueError/RuntimeError). Each injected call "
    "runs on a fresh instantiation under 2 (quick) / 3 (thorough) S1 schedules; if it raises, every tensor's "
    ".grad must be the same object with the same bytes as before. One evaluation = one injected call under one "
    "schedule; distinct = distinct (api, fault kind, position, set-order-position of the offending key, "
    "raised?) x world digest; non-trivial = the call raised."
)
REAL = ["torchjd.autojac.backward / mtl_backward argument checks and pipelines", "torchjd.aggregation rejections (Constant, Krum, TrimmedMean, UPGrad(pref), GradDrop(leak))", "torch.autograd"]
STUBS = ["torch.Tensor.__hash__ (S1 seam: decides how much Accumulate has written when it raises)", "raising aggregator = simulator-owned collaborator (F3)"]
ASSUMPTIONS = [
    "C20 states 'IF the call raises THEN nothing changed'; whether a kind must be refused is not judged (e.g. a duplicate inside `inputs` is de-duplicated by set())",
    ".grad identity = id() of the tensor object (all observed .grad objects are kept alive so ids cannot be recycled) and raw bytes",
]


# ----------------------------------------------------------------------------------------------
def _nonleaf_candidates(spec, model, exclude):
    out = []
    for n in spec["nodes"]:
        for o in n["out"]:
            if model.values[o].rq and o not in exclude and numel(model.values[o].shape) >= 1:
                out.append(o)
    return out


def faults_backward(rng, spec, model, call):
    F = []
    base = call

    def add(kind, group, pos, **changes):
        c = copy.deepcopy(base)
        c.update(changes)
        F.append({"kind": kind, "group": group, "pos": pos, "call": c})

    for k in (0, -1):
        add("chunk_nonpositive", "chunk", k, chunk=k)
    add("empty_tensors", "tensors", 0, tensors=[])
    ts = base["tensors"]
    for i in range(len(ts)):
        for j in range(len(ts) + 1):
            new = list(ts)
            new.insert(j, ts[i])
            add("duplicate_tensor", "tensors", [i, j], tensors=new, tensors_single=False)
    rg = [leaf["name"] for leaf in spec["leaves"] if leaf["rg"]]
    inputs = base["inputs"] if base.get("inputs") is not None else list(rg)
    for i in range(len(inputs)):
        new = list(inputs)
        new.insert(rng.randint(0, len(inputs)), inputs[i])
        add("duplicate_input", "inputs", i, inputs=new)
    nonleaf = _nonleaf_candidates(spec, model, set())
    nonrg = [leaf["name"] for leaf in spec["leaves"] if not leaf["rg"]]
    for pos in range(len(inputs) + 1):
        if nonleaf:
            new = list(inputs)
            new.insert(pos, rng.choice(nonleaf))
            add("param_nonleaf", "inputs", pos, inputs=new)
        if nonrg:
            new = list(inputs)
            new.insert(pos, rng.choice(nonrg))
            add("param_no_requires_grad", "inputs", pos, inputs=new)
    # S3 x F2: a parameter that was valid in an earlier successful call and has been frozen since
    for pos in range(len(inputs)):
        c = copy.deepcopy(base)
        warm = copy.deepcopy(base)
        warm["retain"] = True
        F.append({"kind": "param_frozen_after_valid_call", "group": "inputs", "pos": pos, "call": c, "warmup": warm, "freeze": inputs[pos]})
    m = sum(numel(model.values[o].shape) for o in ts)
    rej = [
        ("agg_constant_wrong_rows", {"kind": "Constant", "w": [0.5] * (m + 1)}),
        ("agg_constant_wrong_rows", {"kind": "Constant", "w": [0.5] * max(1, m - 1)}) if m > 1 else None,
        ("agg_pref_wrong_rows", {"kind": "UPGrad", "pref": [1.0] * (m + 1)}),
        ("agg_leak_wrong_rows", {"kind": "GradDrop", "leak": [0.5] * (m + 2)}),
        ("agg_krum_too_few_rows", {"kind": "Krum", "f": m, "k": 1}),
        ("agg_trimmed_too_few_rows", {"kind": "TrimmedMean", "b": m}),
        ("agg_raises_valueerror", {"kind": "Raising", "exc": "ValueError"}),
        ("agg_raises_runtimeerror", {"kind": "Raising", "exc": "RuntimeError"}),
    ]
    for r in rej:
        if r is not None:
            add(r[0], "aggregator", 0, agg=r[1])
    return F


def faults_mtl(rng, spec, model, roles, call):
    F = []
    base = call

    def add(kind, group, pos, **changes):
        c = copy.deepcopy(base)
        c.update(changes)
        F.append({"kind": kind, "group": group, "pos": pos, "call": c})

    for k in (0, -2):
        add("chunk_nonpositive", "chunk", k, chunk=k)
    add("empty_features", "features", 0, features=[], features_single=False)
    add("empty_losses", "losses", 0, losses=[], tasks=[])
    t = len(base["losses"])
    nonscalar = [o for n in spec["nodes"] for o in n["out"] if model.values[o].rq and len(model.values[o].shape) >= 1 and numel(model.values[o].shape) >= 1]
    if nonscalar:
        for i in range(t):
            new = list(base["losses"])
            new[i] = rng.choice(nonscalar)
            add("nonscalar_loss", "losses", i, losses=new)
    # a fault that edits a defaulted group first makes that group explicit (the model's default set); the
    # OTHER group stays defaulted if the base call left it so -- "exactly one group given" is a call shape
    # of its own
    from ..world import default_params_mtl

    cutmodel = Model(spec, cut=base["features"])
    dshared, dtasks = default_params_mtl(model, cutmodel, base["losses"], base["features"])
    tasks = base["tasks"] if base["tasks"] is not None else [list(tp) for tp in dtasks]
    shared = base["shared"] if base["shared"] is not None else list(dshared)
    add("len_mismatch_more_tasks", "tasks", t, tasks=[list(tp) for tp in tasks] + [[]])
    if t >= 1:
        add("len_mismatch_fewer_tasks", "tasks", t - 1, tasks=[list(tp) for tp in tasks[:-1]])
        add("len_mismatch_fewer_losses", "losses", t - 1, losses=list(base["losses"][:-1]) if t > 1 else [], tasks=[list(tp) for tp in tasks])
    # overlap: each shared param into each task; each task param into shared
    for i in range(t):
        for p in shared:
            new = [list(tp) for tp in tasks]
            new[i].insert(rng.randint(0, len(new[i])), p)
            add("overlap_shared_in_task", "tasks", [i, p], tasks=new)
    for p in sorted({p for tp in tasks for p in tp}):
        new = list(shared)
        new.insert(rng.randint(0, len(new)), p)
        add("overlap_task_in_shared", "shared", p, shared=new)
    fs = base["features"]
    for i in range(len(fs)):
        for j in range(len(fs) + 1):
            new = list(fs)
            new.insert(j, fs[i])
            add("duplicate_feature", "features", [i, j], features=new, features_single=False)
    for i in range(len(shared)):
        new = list(shared)
        new.insert(rng.randint(0, len(shared)), shared[i])
        add("duplicate_shared_param", "shared", i, shared=new)
    for ti in range(t):
        for i in range(len(tasks[ti])):
            new = [list(tp) for tp in tasks]
            new[ti].insert(rng.randint(0, len(new[ti])), tasks[ti][i])
            add("duplicate_task_param", "tasks", [ti, i], tasks=new)
    for gi, group in enumerate([shared] + [list(tp) for tp in tasks]):
        for pos in range(len(group)):
            c = copy.deepcopy(base)
            warm = copy.deepcopy(base)
            warm["retain"] = True
            F.append({"kind": "param_frozen_after_valid_call", "group": "shared" if gi == 0 else "tasks", "pos": pos if gi == 0 else [gi - 1, pos], "call": c, "warmup": warm, "freeze": group[pos]})
    feats = set(fs)
    trunk_nonleaf = [o for n in spec["nodes"][: roles["trunk_nodes_end"]] for o in n["out"] if model.values[o].rq and o not in feats]
    all_nonleaf = _nonleaf_candidates(spec, model, feats | set(base["losses"]))
    nonrg = [leaf["name"] for leaf in spec["leaves"] if not leaf["rg"]]
    for pos in range(len(shared) + 1):
        if trunk_nonleaf:
            new = list(shared)
            new.insert(pos, rng.choice(trunk_nonleaf))
            add("param_nonleaf", "shared", pos, shared=new)
        if nonrg:
            new = list(shared)
            new.insert(pos, rng.choice(nonrg))
            add("param_no_requires_grad", "shared", pos, shared=new)
    # an intermediate on which retain_grad() was called and which was then detached in place: it neither
    # requires grad nor is it a leaf requiring grad (torch keeps its retains_grad flag set)
    if all_nonleaf:
        victim = rng.choice(all_nonleaf)
        new = list(shared)
        new.insert(rng.randint(0, len(new)), victim)
        F.append({"kind": "param_detached_in_place_after_retain_grad", "group": "shared", "pos": 0, "call": {**copy.deepcopy(base), "shared": new}, "detach_in_place": victim})
        if t >= 2:
            newt = [list(tp) for tp in tasks]
            newt[t - 1].append(victim)
            F.append({"kind": "param_detached_in_place_after_retain_grad", "group": "tasks", "pos": [t - 1, len(newt[t - 1]) - 1], "call": {**copy.deepcopy(base), "tasks": newt}, "detach_in_place": victim})
    for ti in range(t):
        for pos in range(len(tasks[ti]) + 1):
            if all_nonleaf:
                new = [list(tp) for tp in tasks]
                new[ti].insert(pos, rng.choice(all_nonleaf))
                add("param_nonleaf", "tasks", [ti, pos], tasks=new)
            if nonrg:
                cand = [n for n in nonrg if n not in shared]
                if cand:
                    new = [list(tp) for tp in tasks]
                    new[ti].insert(pos, rng.choice(cand))
                    add("param_no_requires_grad", "tasks", [ti, pos], tasks=new)
    return F


def generate(rng, tier, index):
    dtype = "float64"
    nsched = 2 if tier == "quick" else 3
    if rng.random() < 0.5:
        spec, g = gen_program(rng, dtype, n_nodes=rng.choice([2, 3, 4, 5, 6]), n_leaves=rng.choice([2, 3, 3, 4]))
        outs = pick_outputs(rng, g, max_rows=6, max_outputs=3)
        if not outs:
            return None
        model = Model(spec)
        m = sum(numel(g.shape[o]) for o in outs)
        rg = [leaf["name"] for leaf in spec["leaves"] if leaf["rg"]]
        inputs = rng.sample(rg, rng.randint(1, len(rg))) if rng.random() < 0.8 else None
        call = {"api": "backward", "tensors": outs, "inputs": inputs, "agg": gen_det_agg(rng, m, dtype), "chunk": gen_chunk(rng, m), "retain": rng.random() < 0.5}
        from ..world import gen_forms

        call["forms"] = gen_forms(rng)
        roles = None
        faults = faults_backward(rng, spec, model, call)
    else:
        r = gen_mtl(rng, dtype, n_tasks=rng.choice([1, 2, 2, 3]))
        if r is None:
            return None
        spec, roles, g = r
        model = Model(spec)
        call = C02.gen_mtl_call(rng, spec, roles, dtype, model=model, allow_default=rng.random() < 0.6)
        faults = faults_mtl(rng, spec, model, roles, call)
    scheds = [gen_sched(rng, spec, mode=rng.choice(["perm", "perm", "scatter"])) for _ in range(nsched)]
    return {"spec": spec, "roles": roles, "base_call": call, "faults": faults, "scheds": scheds, "pre_grads": gen_pre_grads(rng, spec, p=0.5)}


def _offending_position(world, f):
    """Where does the schedule put the offending key among the keys Accumulate iterates? Returns
    (n_valid_before, total) or None when not applicable."""
    call = f["call"]
    if f["kind"] not in ("param_nonleaf", "param_no_requires_grad"):
        return None
    if call["api"] == "backward" and f["group"] == "inputs":
        names = call["inputs"]
        order = seams.effective_order([world.t[n] for n in names])
        # the offending one is at list position f["pos"]
        return order.index(f["pos"]), len(order)
    return None


def execute(scn):
    spec = scn["spec"]
    stats, events, viols, sets = {}, [], [], {}
    from ..world import require_valid

    require_valid(Model(spec), scn["base_call"])
    sigs = []
    raised_any = False
    for fi, f in enumerate(scn["faults"]):
        for si, sched in enumerate(scn["scheds"]):
            world = World(spec, sched)
            apply_pre_grads(world, scn.get("pre_grads", {}))
            if f.get("warmup"):
                wout, _ = run_call(world, f["warmup"])
                stats["api_calls"] = stats.get("api_calls", 0) + 1
                if not wout["ok"] or f["freeze"] not in world.t:
                    continue
                world.t[f["freeze"]].requires_grad_(False)
                stats["reach.parameter_frozen_between_calls"] = stats.get("reach.parameter_frozen_between_calls", 0) + 1
            if f.get("detach_in_place"):
                v = world.t.get(f["detach_in_place"])
                if v is None or v.is_leaf or not v.requires_grad:
                    continue
                try:
                    v.retain_grad()
                    v.detach_()
                except RuntimeError:
                    continue  # views cannot be detached in place: this fault does not exist for them
            before = world.grads()
            out, _ = run_call(world, f["call"])
            after = world.grads()
            stats["api_calls"] = stats.get("api_calls", 0) + 1
            stats[f"injected.{f['kind']}"] = stats.get(f"injected.{f['kind']}", 0) + 1
            events.append([fi, si, out["ok"], out["exc"]])
            if out["ok"]:
                stats[f"not_refused.{f['kind']}"] = stats.get(f"not_refused.{f['kind']}", 0) + 1
                continue
            raised_any = True
            stats[f"fault.{f['kind']}"] = stats.get(f"fault.{f['kind']}", 0) + 1
            pos = _offending_position(world, f)
            window = None
            if pos is not None:
                window = pos[0] > 0
            elif f["call"]["api"] == "mtl" and f["kind"] in ("param_nonleaf", "param_no_requires_grad", "param_frozen_after_valid_call", "param_detached_in_place_after_retain_grad"):
                tk = f["call"]["tasks"]
                if tk is None:
                    window = True
                elif f["group"] == "shared":
                    window = any(len(tp) > 0 for tp in tk)
                else:
                    window = f["pos"][0] > 0 and any(len(tp) > 0 for tp in tk[: f["pos"][0]])
                if f["call"]["tasks"] is None or f["call"]["shared"] is None:
                    stats["reach.fault_with_one_group_defaulted"] = stats.get("reach.fault_with_one_group_defaulted", 0) + 1
            if window:
                stats["reach.partial_write_window"] = stats.get("reach.partial_write_window", 0) + 1
            changed = [n for n in world.names if before[n] != after[n]]
            sigs.append([f["call"]["api"], f["kind"], f["group"], str(f["pos"]), pos, out["exc"]])
            if changed:
                viols.append({
                    "clause": "rejected_call_modified_grad", "step": [fi, si],
                    "details": {"api": f["call"]["api"], "fault": f["kind"], "group": f["group"], "pos": f["pos"], "exc": out["exc"], "msg": out["msg"], "changed": changed, "set_order_position": pos},
                    "key": {"api": f["call"]["api"], "fault": f["kind"], "group": f["group"], "defaulted": _defaulted(f["call"])},
                })
    sets["fault_cases"] = [digest([op_sig(spec), s]) for s in sigs]
    sets["fault_kinds_raised"] = sorted({s[1] for s in sigs})
    stats["evaluations"] = len(scn["faults"]) * len(scn["scheds"])
    # keep one violation per (api, fault, group) so that distinct defects are all reported
    uniq = {}
    for v in viols:
        uniq.setdefault(json_key(v["key"]), v)
    return {
        "violations": list(uniq.values()), "events": events, "stats": stats, "sets": sets,
        "sig": digest([op_sig(spec), scn["base_call"]["api"], len(scn["faults"])]), "nontrivial": raised_any,
    }


def _defaulted(call):
    if call["api"] != "mtl":
        return "inputs" if call.get("inputs") is None else "none"
    d = [g for g in ("tasks", "shared") if call.get(g) is None]
    return "+".join(d) if d else "none"


def json_key(k):
    return "|".join(f"{a}={k[a]}" for a in sorted(k))


def evidence_extra(agg_stats, sets, tier):
    return {
        "evaluations_injected_calls": agg_stats.get("evaluations", 0),
        "distinct_fault_cases": len(sets.get("fault_cases", [])),
        "fault_kinds_that_raised": sets.get("fault_kinds_raised", []),
        "per_kind": {
            k[9:]: {"injected": v, "raised": agg_stats.get("fault." + k[9:], 0), "not_refused": agg_stats.get("not_refused." + k[9:], 0)}
            for k, v in sorted(agg_stats.items()) if k.startswith("injected.")
        },
    }


def shrink(scn):
    # 1. a single fault, a single schedule
    if len(scn["faults"]) > 1:
        for i in range(len(scn["faults"])):
            s = copy.deepcopy(scn)
            s["faults"] = [scn["faults"][i]]
            yield s
    if len(scn["scheds"]) > 1:
        for i in range(len(scn["scheds"])):
            s = copy.deepcopy(scn)
            s["scheds"] = [scn["scheds"][i]]
            yield s
    if scn.get("pre_grads"):
        s = copy.deepcopy(scn)
        s["pre_grads"] = {}
        yield s
    if len(scn["faults"]) == 1:
        call = scn["faults"][0]["call"]
        if call["agg"]["kind"] not in ("Sum", "Raising") and scn["faults"][0]["group"] != "aggregator":
            s = copy.deepcopy(scn)
            s["faults"][0]["call"]["agg"] = {"kind": "Sum"}
            yield s
        if call.get("chunk") is not None and scn["faults"][0]["group"] != "chunk":
            s = copy.deepcopy(scn)
            s["faults"][0]["call"]["chunk"] = None
            yield s
        if call["api"] == "backward":
            protected = list(call["tensors"]) + list(call.get("inputs") or [])
            keep = []
        else:
            protected = list(call["losses"]) + list(call["features"])
            keep = [p for tp in (call["tasks"] or []) for p in tp] + list(call["shared"] or [])
        for spec2 in spec_candidates(scn["spec"], protected + keep):
            s = copy.deepcopy(scn)
            s["spec"] = spec2
            yield s
