"""C05 -- with linear aggregators, Jacobian descent coincides with PyTorch autograd (twin graph)."""
import copy

import numpy as np
import torch

from ..aggs import ref_weights_linear
from ..autogen import apply_pre_grads, count_sweeps, gen_chunk, gen_det_agg, gen_pre_grads, op_sig
from ..model import Model, numel
from ..seeds import digest
from ..shrinkspec import spec_candidates
from ..spec import gen_mtl, gen_program, pick_outputs
from ..world import spec_eps, EPS, World, compare, expect_backward, expect_mtl, gen_sched, run_call
from . import c02 as C02

ID = "C05"
LEVEL = "exploration"
BUDGET = {
    "quick": {"runs": 4000, "wall": 240, "chunk": 25},
    "thorough": {"runs": 150000, "wall": 3400, "chunk": 100},
}
RULE = (
    "each run instantiates one random program twice (world and twin). World: the real backward()/mtl_backward() "
    "with Constant(w) (w incl. negative and zero), Sum() or Mean(), a random chunk size, input subset/order and "
    "S1 schedule; the Sum/Mean instance has often been used before on matrices with other row counts. Twin: torch.autograd.backward(tensors, grad_tensors=w split per tensor, inputs=same) -- for "
    "mtl_backward: loss_i.backward(inputs=task_params_i) per task and the two-stage through-the-features "
    "pull-back for the shared parameters (plus the one-stage form when no shared leaf bypasses the features). "
    "Every leaf's .grad must agree (requested-but-unreachable inputs: zeros == None). Non-trivial: >=2 rows and "
    ">=2 requested parameters; distinct = digest of (ops, shapes, api, aggregator kind, chunk, defaults)."
)
REAL = ["torchjd.autojac.backward / mtl_backward", "torchjd.aggregation.Constant/Sum/Mean", "torch.autograd (system under test side and twin side)", "torch.vmap"]
STUBS = ["torch.Tensor.__hash__ (S1 seam)", "discovered-leaf insertion order (S1b seam)", "probe nodes are simulator-owned user code"]
ASSUMPTIONS = [
    "torch.autograd is the reference implementation; world and twin are separate instantiations of the same spec",
    "agreement is required within twice the forward error bound of the model (both sides are floating-point evaluations of the same linear map)",
    "a requested input that no output reaches compares as zeros (torch leaves None; C01/C06 require torchjd to create zeros)",
]


def generate(rng, tier, index):
    dtype = "float64" if rng.random() < 0.6 else "float32"
    if rng.random() < 0.5:
        spec, g = gen_program(rng, dtype, p_probe=0.05)
        outs = pick_outputs(rng, g)
        if not outs:
            return None
        m = sum(numel(g.shape[o]) for o in outs)
        rg = [leaf["name"] for leaf in spec["leaves"] if leaf["rg"]]
        inputs = rng.sample(rg, rng.randint(1, len(rg))) if rng.random() < 0.7 else None
        call = {
            "api": "backward", "tensors": outs, "inputs": inputs, "agg": gen_det_agg(rng, m, dtype, linear_only=True),
            "chunk": gen_chunk(rng, m), "retain": rng.random() < 0.5, "tensors_single": rng.random() < 0.5,
        }
        from ..world import gen_forms

        call["forms"] = gen_forms(rng)
        roles = None
    else:
        r = gen_mtl(rng, dtype, p_probe=0.05)
        if r is None:
            return None
        spec, roles, g = r
        call = C02.gen_mtl_call(rng, spec, roles, dtype, linear_only=True)
    # S3: the user's aggregator object has usually been used before (earlier iterations, other batches):
    # earlier direct uses of the SAME instance on matrices with other row counts (Sum/Mean only: Constant
    # is bound to its row count)
    agg_history = []
    if call["agg"]["kind"] in ("Sum", "Mean") and rng.random() < 0.6:
        agg_history = [[rng.randint(1, 9), rng.randint(1, 5)] for _ in range(rng.choice([1, 2, 3]))]
    pre = gen_pre_grads(rng, spec)
    # F8 variant: ONE tensor installed as the .grad of two same-shaped parameters (tied accumulators, bucket
    # views): torch.autograd accumulates in place, so both see both contributions
    ties = []
    rgl = [leaf for leaf in spec["leaves"] if leaf["rg"]]
    if rng.random() < 0.25:
        for i in range(len(rgl)):
            for j in range(i + 1, len(rgl)):
                if rgl[i]["shape"] == rgl[j]["shape"] and not ties:
                    ties.append([rgl[i]["name"], rgl[j]["name"]])
                    pre.setdefault(rgl[i]["name"], [0.25 * (k % 5) for k in range(numel(rgl[i]["shape"]))])
    return {"spec": spec, "roles": roles, "call": call, "sched": gen_sched(rng, spec), "twin_sched": gen_sched(rng, spec), "pre_grads": pre, "agg_history": agg_history, "tied_grads": ties}


def _weights_split(world, names, w):
    out = []
    k = 0
    for n in names:
        t = world.t[n]
        c = t.numel()
        out.append(torch.tensor(w[k : k + c], dtype=world.dtype).reshape(t.shape))
        k += c
    return out


def execute(scn):
    spec, call = scn["spec"], scn["call"]
    eps = spec_eps(spec)
    model = Model(spec)
    stats, events, viols, sets = {}, [], [], {}
    from ..world import require_valid

    require_valid(model, call)
    world = World(spec, scn["sched"])
    twin = World(spec, scn["twin_sched"], twin_offset=1 << 20)
    apply_pre_grads(world, scn.get("pre_grads", {}))
    apply_pre_grads(twin, scn.get("pre_grads", {}))
    for a, b in scn.get("tied_grads", []):
        for w in (world, twin):
            if a in w.t and b in w.t and w.t[a].grad is not None and w.t[a].shape == w.t[b].shape:
                w.t[b].grad = w.t[a].grad  # the very same tensor object
                stats["reach.tied_grad_accumulators"] = 1

    from ..aggs import make_agg

    agg = make_agg(call["agg"], world.dtype)
    for mm, nn in scn.get("agg_history", []):
        agg(torch.ones((mm, nn), dtype=world.dtype) * 0.5)
        stats["reach.aggregator_instance_used_before_with_other_row_count"] = 1
    out, _ = run_call(world, call, agg=agg)
    stats["api_calls"] = 1
    stats["sweeps"] = count_sweeps(world.log.events)
    events.append(["world", out["ok"], out["exc"]])
    if not out["ok"]:
        return {"violations": [{"clause": "valid_call_raised", "step": "world", "details": out, "key": {"exc": out["exc"], "msg": (out.get("msg") or "")[:40]}}], "events": events, "stats": stats, "sig": None, "nontrivial": False}

    tolmap = {}
    requested = []
    if call["api"] == "backward":
        exp = expect_backward(model, call, eps)
        m = exp["m"]
        w = list(ref_weights_linear(call["agg"], m))
        requested = exp["inputs"]
        for n, (upd, tol) in exp["updates"].items():
            tolmap[n] = tol
        tensors = [twin.t[n] for n in call["tensors"]]
        gts = _weights_split(twin, call["tensors"], w)
        inputs = None if call.get("inputs") is None else [twin.t[n] for n in call["inputs"]]
        torch.autograd.backward(tensors, grad_tensors=gts, inputs=inputs)
        stats["twin_calls"] = 1
        ncols = exp["J"].shape[1]
    else:
        cutmodel = Model(spec, cut=call["features"])
        exp = expect_mtl(model, cutmodel, call, eps)
        m = exp["m"]
        w = list(ref_weights_linear(call["agg"], m))
        for n, (upd, tol) in exp["task_updates"].items():
            tolmap[n] = tol
        for n, (upd, tol) in exp["shared_updates"].items():
            tolmap[n] = tol
        requested = list(exp["task_updates"].keys()) + list(exp["shared_updates"].keys())
        # task-specific parameters: what loss_i.backward(inputs=task_params_i) gives
        for i, loss in enumerate(call["losses"]):
            tp = [twin.t[n] for n in exp["tasks"][i]]
            if tp:
                twin.t[loss].backward(inputs=tp, retain_graph=True)
        # shared parameters: two-stage pull-back through the features
        shared = [twin.t[n] for n in exp["shared"]]
        ncols = exp["J"].shape[1]
        if shared:
            feats = [twin.t[n] for n in call["features"]]
            total = sum(wi * twin.t[loss] for wi, loss in zip(w, call["losses"]))
            g = torch.autograd.grad(total, feats, allow_unused=True, retain_graph=True)
            g = [torch.zeros_like(f) if gi is None else gi for gi, f in zip(g, feats)]
            torch.autograd.backward(feats, grad_tensors=g, inputs=shared, retain_graph=True)
        stats["twin_calls"] = len(call["losses"]) + 2
        # one-stage form on a third instantiation when no shared leaf reaches a loss around the features
        bypass = any(s in cutmodel.values[loss].anc for s in exp["shared"] for loss in call["losses"])
        if shared and not bypass and not scn.get("tied_grads"):
            stats["reach.one_stage_twin"] = 1
            third = World(spec, scn["twin_sched"], twin_offset=1 << 21)
            apply_pre_grads(third, scn.get("pre_grads", {}))
            torch.autograd.backward(
                [third.t[x] for x in call["losses"]],
                grad_tensors=[torch.tensor(wi, dtype=third.dtype) for wi in w],
                inputs=[third.t[n] for n in exp["shared"]],
            )
            for n in exp["shared"]:
                _cmp_leaf(world, third, n, tolmap, True, eps, viols, "shared_vs_one_stage_autograd")
        elif shared:
            stats["reach.shared_leaf_bypasses_features"] = 1

    for a, b in scn.get("tied_grads", []):
        # one accumulator behind two names: both carry the sum of the two tolerances
        ta, tb = tolmap.get(a), tolmap.get(b)
        if ta is not None or tb is not None:
            tsum = (ta if ta is not None else 0.0) + (tb if tb is not None else 0.0)
            tolmap[a] = tsum
            tolmap[b] = tsum
    for n in world.leaf_names:
        _cmp_leaf(world, twin, n, tolmap, n in requested, eps, viols, "grad_vs_autograd_twin")
    events.append(["grads", digest({n: (None if world.t[n].grad is None else world.t[n].grad.detach().numpy().tobytes()) for n in world.leaf_names})])
    if any(x == 0.0 for x in w):
        stats["reach.zero_weight"] = 1
    if any(x < 0.0 for x in w):
        stats["reach.negative_weight"] = 1
    sets["cfg"] = [f"{call['api']},{call['agg']['kind']},m={m},k={call.get('chunk')}"]
    sig = digest([op_sig(spec), call["api"], call["agg"]["kind"], call.get("chunk"), call.get("inputs") is None, call.get("tasks") is None, call.get("shared") is None, m])
    return {"violations": viols, "events": events, "stats": stats, "sets": sets, "sig": sig, "nontrivial": m >= 2 and len(requested) >= 2}


def _cmp_leaf(world, twin, n, tolmap, requested, eps, viols, clause):
    a = world.grad_array(n)
    b = twin.grad_array(n)
    if a is None and b is None:
        return
    if requested:
        shape = tuple(world.t[n].shape)
        a2 = np.zeros(shape) if a is None else a
        b2 = np.zeros(shape) if b is None else b
        if a is None:
            viols.append({"clause": clause, "step": "compare", "details": {"leaf": n, "problem": "requested parameter has no .grad"}, "key": {}})
            return
    else:
        if (a is None) != (b is None):
            viols.append({"clause": clause, "step": "compare", "details": {"leaf": n, "problem": "None-ness differs on an unrequested leaf", "torchjd_none": a is None}, "key": {}})
            return
        a2, b2 = a, b
    tol = tolmap.get(n)
    if tol is None:
        tol = np.zeros_like(a2)
    bad = compare(a2, b2, 2 * tol + 4 * eps * (np.abs(a2) + np.abs(b2)))
    if bad:
        viols.append({"clause": clause, "step": "compare", "details": {"leaf": n, **bad}, "key": {}})


def shrink(scn):
    call = scn["call"]
    if scn.get("pre_grads"):
        s = copy.deepcopy(scn)
        s["pre_grads"] = {}
        yield s
    if scn.get("agg_history"):
        for i in range(len(scn["agg_history"])):
            s = copy.deepcopy(scn)
            del s["agg_history"][i]
            yield s
    if call.get("chunk") is not None:
        s = copy.deepcopy(scn)
        s["call"]["chunk"] = None
        yield s
    if call["agg"]["kind"] != "Sum" and not scn.get("agg_history"):
        s = copy.deepcopy(scn)
        s["call"]["agg"] = {"kind": "Sum"}
        yield s
    if call["api"] == "backward":
        if len(call["tensors"]) > 1:
            for i in range(len(call["tensors"])):
                s = copy.deepcopy(scn)
                del s["call"]["tensors"][i]
                s["call"]["agg"] = {"kind": "Sum"}
                yield s
        if call.get("inputs") and len(call["inputs"]) > 1:
            for i in range(len(call["inputs"])):
                s = copy.deepcopy(scn)
                del s["call"]["inputs"][i]
                yield s
        protected = list(call["tensors"]) + list(call.get("inputs") or [])
        keep = []
    else:
        if len(call["losses"]) > 1:
            for i in range(len(call["losses"])):
                s = copy.deepcopy(scn)
                del s["call"]["losses"][i]
                if s["call"]["tasks"] is not None:
                    del s["call"]["tasks"][i]
                if s["call"]["agg"]["kind"] == "Constant":
                    del s["call"]["agg"]["w"][i]
                yield s
        protected = list(call["losses"]) + list(call["features"])
        keep = [p for tp in (call["tasks"] or []) for p in tp] + list(call["shared"] or [])
    for spec2 in spec_candidates(scn["spec"], protected, keep_leaves=keep):
        s = copy.deepcopy(scn)
        s["spec"] = spec2
        if s["call"]["agg"]["kind"] == "Constant" and call["api"] == "backward":
            m2 = sum(numel(Model(spec2).values[o].shape) for o in call["tensors"])
            if m2 != len(s["call"]["agg"]["w"]):
                continue
        yield s
