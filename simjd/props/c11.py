"""C11 -- history, purity, seeding, rejection and fault-path clauses of the aggregators (S3+S2+F4+F5)."""
import copy

import numpy as np
import torch

from .. import seams
from ..aggs import admissible, make_agg
from ..autogen import gen_pref, gen_weights
from ..seeds import digest

ID = "C11"
LEVEL = "exploration"
BUDGET = {
    "quick": {"runs": 1600, "wall": 420, "chunk": 8, "per_run_cap": 240},
    "thorough": {"runs": 80000, "wall": 3400, "chunk": 40, "per_run_cap": 240},
}
WEIGHTED = ["UPGrad", "DualProj", "MGDA", "PCGrad", "CAGrad", "IMTLG", "AlignedMTL", "Krum", "Mean", "Sum", "Constant", "Random"]
MUST_REJECT = WEIGHTED + ["GradDrop", "TrimmedMean"]
RANDOMISED = ["PCGrad", "GradDrop", "Random"]
F5_TARGETS = {"svd": ["UPGrad", "DualProj", "CAGrad"], "eigh": ["AlignedMTL"], "pinv": ["IMTLG", "ConFIG"], "qp": ["UPGrad", "DualProj"], "clarabel": ["CAGrad"]}
RULE = (
    "a run = a pool of 6..9 aggregator instances (every aggregator except NashMTL, varied parameters), a pool of "
    "5 matrices (shapes incl. m=1, n=1, m>n; rank-deficient, zero and duplicate rows; scales 1e-3..1e3) of "
    "which two differ in row count and/or dtype (float32/float64) from the others -- instances without "
    "row-bound tensors are called across row counts and dtypes, those configured with a weight/preference/leak tensor also meet matrices of the other dtype (`xcall`: acceptance not judged, after-effects are) -- and a history of 8..16 steps: call(A_i, J_j [, seed]), "
    "corrupt(A_i, J_j, F4 kind at a seeded position: NaN/+Inf/-Inf entry, 0-d/1-d/3-d tensor, row count "
    "contradicting weights/pref/leak/minimum), kernel-failure(A_i, J_j, F5 site in {svd, eigh, pinv, qp, clarabel}). "
    "After every step: the bytes of the input are unchanged; a clean call has shape (n,), the input dtype, is "
    "finite, and equals BITWISE a fresh instance of the same configuration on the same matrix (same seed for "
    "the randomised ones), so history -- incl. earlier rejections and faults -- is unobservable; a corrupted "
    "input is rejected with ValueError by the weighted aggregators, GradDrop and TrimmedMean; under a kernel "
    "failure the call may let the fault propagate (itself or chained), raise a ValueError, or return finite "
    "data of the right shape/dtype -- but not swallow the fault and then die of another exception -- and the next clean call on the "
    "same instance must still equal the fresh one. Non-trivial: history with >=1 fault step followed by a clean "
    "call on the same instance; distinct = digest of (pool configuration, matrices, step list)."
)
REAL = ["all torchjd aggregators except NashMTL", "quadprog via qpsolvers, Clarabel via cvxpy, LAPACK through torch.linalg (except at injected failures)", "the global torch RNG (seeded per call for the randomised aggregators)"]
STUBS = ["torch.linalg.svd / eigh / pinv and qpsolvers.solve_qp (as imported by _dual_cone_utils) fail on demand at the code's own try/except sites (F5)"]
ASSUMPTIONS = [
    "decides the history/purity/seed/rejection/fault-path clauses; positive homogeneity and the 27-orders-of-magnitude range are not decided (no seam)",
    "'fresh world with no history' is approximated by a newly constructed instance in the same process (global library state cannot be reset); bitwise reproducibility of LAPACK/quadprog/Clarabel is relied on and re-verified by the determinism self-test",
    "ConFIG is not in the statement's rejection list: for corrupted inputs it is only required not to mutate them",
]


def _matrix(rng, m, n, scale):
    kind = rng.choice(["gauss", "gauss", "gauss", "rankdef", "zero_row", "dup_row", "zero", "ints"])
    J = [[scale * rng.gauss(0, 1) for _ in range(n)] for _ in range(m)]
    if kind == "rankdef" and m >= 2:
        base = J[0]
        for i in range(1, m):
            c = rng.uniform(-2, 2)
            J[i] = [c * x for x in base]
    elif kind == "zero_row":
        J[rng.randrange(m)] = [0.0] * n
    elif kind == "dup_row" and m >= 2:
        i, j = rng.sample(range(m), 2)
        J[j] = list(J[i])
    elif kind == "zero":
        J = [[0.0] * n for _ in range(m)]
    elif kind == "ints":
        J = [[float(rng.randint(-3, 3)) * scale for _ in range(n)] for _ in range(m)]
    if rng.random() < 0.15:
        J[rng.randrange(m)][rng.randrange(n)] = -0.0  # a negative zero
    return J


def _agg_pool(rng, m):
    pool = []
    fams = ["UPGrad", "DualProj", "MGDA", "PCGrad", "CAGrad", "IMTLG", "AlignedMTL", "ConFIG", "Constant", "GradDrop", "Krum", "Mean", "Random", "Sum", "TrimmedMean"]
    rng.shuffle(fams)
    for k in fams[: rng.randint(6, 9)]:
        a = {"kind": k}
        if k in ("UPGrad", "DualProj", "AlignedMTL", "ConFIG"):
            a["pref"] = gen_pref(rng, m) if rng.random() < 0.5 else None
        if k in ("UPGrad", "DualProj") and rng.random() < 0.3:
            a["reg_eps"] = rng.choice([1e-6, 1e-3])
            a["norm_eps"] = rng.choice([1e-6, 1e-2])
        if k == "MGDA":
            a["max_iters"] = rng.choice([5, 100])
        if k == "CAGrad":
            a["c"] = rng.choice([0.0, 0.5, 1.0, 2.0])
        if k == "Constant":
            a["w"] = gen_weights(rng, m)
        if k == "GradDrop":
            a["leak"] = [rng.random() for _ in range(m)] if rng.random() < 0.5 else None
            a["f"] = rng.choice([None, None, "square", "smoothstep"])
        if k == "Krum":
            if m < 3:
                continue
            a["f"] = rng.randint(0, m - 3)
            a["k"] = rng.randint(1, m)
        if k == "TrimmedMean":
            a["b"] = rng.randint(0, (m - 1) // 2)
        pool.append(a)
    return pool


def _row_requirement(a, m):
    """How can the row count contradict this configuration? Returns a list of bad row counts."""
    k = a["kind"]
    if k == "Constant":
        return [m + 1] + ([m - 1] if m > 1 else [])
    if k in ("UPGrad", "DualProj", "AlignedMTL") and a.get("pref") is not None:
        return [m + 1] + ([m - 1] if m > 1 else [])
    if k == "GradDrop" and a.get("leak") is not None:
        return [m + 1] + ([m - 1] if m > 1 else [])
    if k == "Krum":
        return [a["f"] + 2] + ([a["k"] - 1] if a["k"] - 1 >= 1 and a["k"] - 1 < a["f"] + 3 else [])
    if k == "TrimmedMean" and a["b"] >= 1:
        return [2 * a["b"]]
    return []


def _bound(a):
    """Is this configuration bound to one row count / dtype (it holds a tensor of weights)?"""
    return a["kind"] == "Constant" or a.get("pref") is not None or a.get("leak") is not None


def _callable(a, mat, m0, dtype0):
    """May aggregator config `a` be called on matrix descriptor `mat` (rows, dtype)?"""
    if _bound(a):
        return mat["m"] == m0 and mat["dtype"] == dtype0
    return admissible(a, mat["m"])


def generate(rng, tier, index):
    m = rng.choice([1, 2, 2, 3, 3, 4, 5, 6])
    dtype = "float32" if rng.random() < 0.5 else "float64"
    other = "float64" if dtype == "float32" else "float32"
    pool = _agg_pool(rng, m)
    if not pool:
        return None
    mats = []
    for k in range(5):
        # the first three matrices share (m, dtype) with the tensor-configured aggregators; the others vary
        mk = m if k < 3 else rng.choice([1, 2, 3, 4, 5, 6, 7])
        dk = dtype if k < 2 else rng.choice([dtype, other])
        n = rng.choice([1, 2, 3, 5, 8] if mk > 1 else [1, 3, 6])
        mats.append({"m": mk, "dtype": dk, "J": _matrix(rng, mk, n, 10 ** rng.uniform(-3, 3)), "form": rng.choice(["plain", "plain", "noncontig", "requires_grad"])})
    steps = []
    faults_on = index % 2 == 1  # fault-free and fault-injecting configurations are separate batches
    n_steps = rng.randint(8, 16)
    guard = 0
    while len(steps) < n_steps and guard < 200:
        guard += 1
        ai = rng.randrange(len(pool))
        ji = rng.randrange(len(mats))
        a = pool[ai]
        if not _callable(a, mats[ji], m, dtype):
            if _bound(a) and mats[ji]["m"] == m and mats[ji]["dtype"] != dtype and rng.random() < 0.5:
                # S3 history: an instance configured with weights of one dtype meets a matrix of the other dtype
                # (same row count). Whether that call is accepted is not judged; what it leaves behind is.
                steps.append({"op": "xcall", "a": ai, "j": ji, "seed": rng.randrange(1 << 30)})
            continue
        mj = mats[ji]["m"]
        r = rng.random()
        if faults_on and r < 0.25:
            kinds = ["nan", "posinf", "neginf", "ndim1", "ndim3", "ndim0"]
            req = _row_requirement(a, mj)
            if req:
                kinds += ["rows", "rows"]
            fk = rng.choice(kinds)
            f = {"kind": fk}
            if fk in ("nan", "posinf", "neginf"):
                f["pos"] = [rng.randrange(mj), rng.randrange(len(mats[ji]["J"][0]))]
            if fk == "rows":
                f["rows"] = rng.choice(req)
            steps.append({"op": "corrupt", "a": ai, "j": ji, "fault": f})
        elif r > 0.93 and mats[ji].get("form", "plain") != "requires_grad":
            # the same tensor object is refilled in place with other values (a reused Jacobian buffer)
            n_j = len(mats[ji]["J"][0])
            steps.append({"op": "overwrite", "j": ji, "J": _matrix(rng, mj, n_j, 10 ** rng.uniform(-3, 3))})
        elif faults_on and r < 0.45:
            sites = [s for s, ks in F5_TARGETS.items() if a["kind"] in ks]
            if not sites:
                steps.append({"op": "call", "a": ai, "j": ji, "seed": rng.randrange(1 << 30)})
            else:
                steps.append({"op": "kfault", "a": ai, "j": ji, "site": rng.choice(sites), "which": rng.choice([None, 0, 0, 1]), "seed": rng.randrange(1 << 30)})
        else:
            steps.append({"op": "call", "a": ai, "j": ji, "seed": rng.randrange(1 << 30)})
    return {"m": m, "dtype": dtype, "pool": pool, "mats": mats, "steps": steps}


def _corrupt_tensor(J, fault, dtype):
    t = J.clone()
    k = fault["kind"]
    if k in ("nan", "posinf", "neginf"):
        r, c = fault["pos"]
        t[r, c] = {"nan": float("nan"), "posinf": float("inf"), "neginf": float("-inf")}[k]
        return t
    if k == "ndim1":
        return t.reshape(-1)
    if k == "ndim3":
        return t.unsqueeze(0)
    if k == "ndim0":
        return t.reshape(-1)[0].clone()
    if k == "rows":
        want = int(fault["rows"])
        m = t.shape[0]
        if want > m:
            return torch.cat([t] + [t[:1]] * (want - m), dim=0)
        return t[:want].clone()
    raise ValueError(k)


def _bytes(t):
    return t.detach().contiguous().numpy().tobytes()


def _nan_aware_equal(a, b):
    return a.shape == b.shape and a.dtype == b.dtype and _bytes(a) == _bytes(b)


def execute(scn):
    DT = {"float32": torch.float32, "float64": torch.float64}
    dtype0 = DT[scn["dtype"]]
    m = scn["m"]
    pool = [make_agg(a, dtype0) for a in scn["pool"]]
    from ..aggs import matrix_form

    mats = [matrix_form(torch.tensor(M["J"], dtype=DT[M["dtype"]]), M.get("form", "plain")) for M in scn["mats"]]
    row_counts = set()
    dtypes_seen = set()
    stats, events, viols, sets = {}, [], [], {}
    faulted = set()  # instances that went through a fault step
    clean_after_fault = False
    for si, st in enumerate(scn["steps"]):
        if st["op"] == "overwrite":
            ji = st["j"]
            if ji < len(mats) and list(mats[ji].shape) == [len(st["J"]), len(st["J"][0])]:
                with torch.no_grad():
                    mats[ji].copy_(torch.tensor(st["J"], dtype=mats[ji].dtype))
                scn["mats"][ji] = {**scn["mats"][ji], "J": st["J"]}
                stats["reach.input_buffer_refilled_in_place"] = stats.get("reach.input_buffer_refilled_in_place", 0) + 1
            events.append([si, "overwrite", ji])
            continue
        ai, ji = st["a"], st["j"]
        if ai >= len(pool) or ji >= len(mats):
            continue
        a_spec = scn["pool"][ai]
        kind = a_spec["kind"]
        A = pool[ai]
        J = mats[ji]
        n = J.shape[1]
        dtype = J.dtype
        row_counts.add((ai, J.shape[0]))
        dtypes_seen.add((ai, str(dtype)))
        if st["op"] == "call":
            before = _bytes(J)
            torch.manual_seed(int(st["seed"]))
            try:
                out = A(J)
                exc = None
            except Exception as e:  # noqa: BLE001
                out, exc = None, f"{type(e).__name__}: {str(e)[:160]}"
            stats["api_calls"] = stats.get("api_calls", 0) + 1
            if _bytes(J) != before:
                viols.append({"clause": "input_modified", "step": si, "details": {"agg": kind, "op": "call"}, "key": {"agg": kind}})
                mats[ji] = matrix_form(torch.tensor(scn["mats"][ji]["J"], dtype=dtype), scn["mats"][ji].get("form", "plain"))
            if exc is not None:
                viols.append({"clause": "clean_call_raised", "step": si, "details": {"agg": a_spec, "exc": exc, "matrix": scn["mats"][ji]["J"], "dtype": scn["mats"][ji]["dtype"]}, "key": {"agg": kind, "exc": exc.split(":")[0]}})
                events.append([si, "call", kind, "raised"])
                continue
            events.append([si, "call", kind, digest(_bytes(out))])
            if tuple(out.shape) != (n,) or out.dtype != dtype:
                viols.append({"clause": "wrong_shape_or_dtype", "step": si, "details": {"agg": kind, "shape": list(out.shape), "dtype": str(out.dtype), "expected": [n, str(dtype)]}, "key": {"agg": kind}})
            elif not bool(torch.isfinite(out).all()):
                viols.append({"clause": "nonfinite_output_on_finite_input", "step": si, "details": {"agg": a_spec, "matrix": scn["mats"][ji]["J"], "dtype": scn["mats"][ji]["dtype"]}, "key": {"agg": kind}})
            # fresh instance, same seed: history must be unobservable
            fresh = make_agg(a_spec, dtype0)
            torch.manual_seed(int(st["seed"]))
            # ... on a fresh tensor OBJECT with the same values and layout: the result is a function of the
            # matrix, not of the identity of the tensor that carries it
            J_fresh = matrix_form(J.detach().clone().contiguous(), scn["mats"][ji].get("form", "plain"))
            try:
                ref = fresh(J_fresh)
            except Exception as e:  # noqa: BLE001
                ref = None
                viols.append({"clause": "fresh_instance_raised_but_history_instance_did_not", "step": si, "details": {"agg": kind, "exc": f"{type(e).__name__}: {str(e)[:160]}"}, "key": {"agg": kind}})
            if ref is not None and not _nan_aware_equal(out, ref):
                d = float((out.double() - ref.double()).abs().max()) if out.shape == ref.shape else None
                viols.append({"clause": "result_depends_on_history", "step": si, "details": {"agg": a_spec, "max_abs_diff": d, "after_fault_on_instance": ai in faulted, "randomised": kind in RANDOMISED}, "key": {"agg": kind}})
            if kind in RANDOMISED:
                stats["reach.seeded_randomised_call"] = stats.get("reach.seeded_randomised_call", 0) + 1
            if ai in faulted:
                clean_after_fault = True
                stats["reach.clean_call_after_fault_on_same_instance"] = stats.get("reach.clean_call_after_fault_on_same_instance", 0) + 1
        elif st["op"] == "xcall":
            before = _bytes(J)
            torch.manual_seed(int(st["seed"]))
            try:
                out = A(J)
                exc = None
            except Exception as e:  # noqa: BLE001
                out, exc = None, type(e).__name__
            stats["api_calls"] = stats.get("api_calls", 0) + 1
            stats["reach.cross_dtype_call_on_weight_bound_instance"] = stats.get("reach.cross_dtype_call_on_weight_bound_instance", 0) + 1
            if _bytes(J) != before:
                viols.append({"clause": "input_modified", "step": si, "details": {"agg": kind, "op": "xcall"}, "key": {"agg": kind}})
                mats[ji] = matrix_form(torch.tensor(scn["mats"][ji]["J"], dtype=dtype), scn["mats"][ji].get("form", "plain"))
            events.append([si, "xcall", kind, "raised:" + exc if exc else digest(_bytes(out))])
            if exc is None:
                stats["reach.cross_dtype_call_accepted"] = stats.get("reach.cross_dtype_call_accepted", 0) + 1
                fresh = make_agg(a_spec, dtype0)
                torch.manual_seed(int(st["seed"]))
                try:
                    ref = fresh(matrix_form(J.detach().clone().contiguous(), scn["mats"][ji].get("form", "plain")))
                except Exception:  # noqa: BLE001 - acceptance of a mismatching dtype is not judged
                    ref = None
                if ref is not None and not _nan_aware_equal(out, ref):
                    d = float((out.double() - ref.double()).abs().max()) if out.shape == ref.shape else None
                    viols.append({"clause": "result_depends_on_history", "step": si, "details": {"agg": a_spec, "max_abs_diff": d, "cross_dtype": True, "randomised": kind in RANDOMISED}, "key": {"agg": kind}})
        elif st["op"] == "corrupt":
            f = st["fault"]
            if f["kind"] in ("nan", "posinf", "neginf") and (f["pos"][0] >= J.shape[0] or f["pos"][1] >= J.shape[1]):
                continue
            Jc = _corrupt_tensor(J, f, dtype)
            before = _bytes(Jc)
            try:
                out = A(Jc)
                exc = None
            except Exception as e:  # noqa: BLE001
                out, exc = None, type(e).__name__
            stats["api_calls"] = stats.get("api_calls", 0) + 1
            stats[f"fault.F4_{f['kind']}"] = stats.get(f"fault.F4_{f['kind']}", 0) + 1
            faulted.add(ai)
            events.append([si, "corrupt", kind, f["kind"], exc])
            if _bytes(Jc) != before:
                viols.append({"clause": "input_modified", "step": si, "details": {"agg": kind, "op": "corrupt", "fault": f}, "key": {"agg": kind}})
            must = kind in MUST_REJECT
            if must and exc != "ValueError":
                viols.append({"clause": "corrupted_input_not_rejected_with_valueerror", "step": si, "details": {"agg": a_spec, "fault": f, "outcome": exc or "returned", "shape": list(Jc.shape)}, "key": {"agg": kind, "fault": f["kind"]}})
            if exc == "ValueError":
                stats["reach.rejected_with_valueerror"] = stats.get("reach.rejected_with_valueerror", 0) + 1
        elif st["op"] == "kfault":
            site = st["site"]
            before = _bytes(J)
            kf = seams.KernelFaults({site: None if st.get("which") is None else [int(st["which"])]})
            torch.manual_seed(int(st["seed"]))
            crashed = None
            with kf.armed():
                try:
                    out = A(J)
                    exc = None
                except Exception as e:  # noqa: BLE001
                    out, exc = None, type(e).__name__
                    # a fault may propagate (itself or chained) or be turned into a deliberate ValueError; but
                    # if the code swallowed it and then died of something else, its fallback path is broken
                    if kf.fired[site] and not kf.in_chain(e) and not isinstance(e, ValueError):
                        crashed = f"{type(e).__name__}: {str(e)[:160]}"
            stats["api_calls"] = stats.get("api_calls", 0) + 1
            if kf.fired[site]:
                stats[f"fault.F5_{site}"] = stats.get(f"fault.F5_{site}", 0) + 1
                faulted.add(ai)
                if exc is None:
                    stats[f"reach.fallback_branch_returned_{site}"] = stats.get(f"reach.fallback_branch_returned_{site}", 0) + 1
                else:
                    stats[f"reach.fault_propagated_as_exception_{site}"] = stats.get(f"reach.fault_propagated_as_exception_{site}", 0) + 1
            events.append([si, "kfault", kind, site, kf.fired[site], exc, None if out is None else digest(_bytes(out))])
            if crashed:
                viols.append({"clause": "fault_path_crashed", "step": si, "details": {"agg": a_spec, "site": site, "exception_after_the_fault_was_swallowed": crashed, "shape": list(J.shape)}, "key": {"agg": kind, "site": site}})
            if _bytes(J) != before:
                viols.append({"clause": "input_modified", "step": si, "details": {"agg": kind, "op": "kfault", "site": site}, "key": {"agg": kind}})
            if exc is None:
                if tuple(out.shape) != (n,) or out.dtype != dtype or not bool(torch.isfinite(out).all()):
                    viols.append({"clause": "fault_path_returned_bad_data", "step": si, "details": {"agg": a_spec, "site": site, "shape": list(out.shape), "dtype": str(out.dtype), "finite": bool(torch.isfinite(out).all())}, "key": {"agg": kind, "site": site}})
    if any(len({rc for (i, rc) in row_counts if i == ai}) > 1 for ai in range(len(pool))):
        stats["reach.same_instance_called_with_different_row_counts"] = 1
    if any(len({d for (i, d) in dtypes_seen if i == ai}) > 1 for ai in range(len(pool))):
        stats["reach.same_instance_called_with_different_dtypes"] = 1
    sets["agg_kinds"] = sorted({a["kind"] for a in scn["pool"]})
    sets["step_trigrams"] = ["-".join(s["op"] for s in scn["steps"][i : i + 3]) for i in range(max(1, len(scn["steps"]) - 2))]
    uniq = {}
    for v in viols:
        uniq.setdefault(v["clause"] + "|" + str(v["key"]), v)
    return {
        "violations": list(uniq.values()), "events": events, "stats": stats, "sets": sets,
        "sig": digest([scn["pool"], scn["mats"], scn["steps"], scn["dtype"]]), "nontrivial": clean_after_fault or len(scn["steps"]) >= 8,
    }


def shrink(scn):
    steps = scn["steps"]
    for i in range(len(steps) - 1, -1, -1):
        s = copy.deepcopy(scn)
        del s["steps"][i]
        if s["steps"]:
            yield s
    used_a = sorted({st["a"] for st in steps if "a" in st})
    used_j = sorted({st["j"] for st in steps})
    if len(used_a) < len(scn["pool"]) or len(used_j) < len(scn["mats"]):
        s = copy.deepcopy(scn)
        s["pool"] = [scn["pool"][i] for i in used_a]
        s["mats"] = [scn["mats"][j] for j in used_j]
        for st in s["steps"]:
            if "a" in st:
                st["a"] = used_a.index(st["a"])
            st["j"] = used_j.index(st["j"])
        yield s
    for j, Md in enumerate(scn["mats"]):
        M = Md["J"]
        n = len(M[0])
        if n > 1:
            for c in range(n):
                bad = any(st["op"] == "corrupt" and st["j"] == j and st["fault"].get("pos", [0, 0])[1] >= n - 1 for st in steps)
                if bad:
                    continue
                s = copy.deepcopy(scn)
                s["mats"][j]["J"] = [[v for k, v in enumerate(r) if k != c] for r in M]
                yield s
        R = [[float(round(v, 2)) for v in r] for r in M]
        if R != M:
            s = copy.deepcopy(scn)
            s["mats"][j]["J"] = R
            yield s
    if False:

        s = copy.deepcopy(scn)
        s["dtype"] = "float64"
        yield s
