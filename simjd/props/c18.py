"""C18 -- PCGrad, GradDrop and Random clauses: the simulator owns the RNG draws (S2 schedules)."""
import copy
import itertools
import math

import numpy as np
import torch

from .. import seams
from ..aggs import make_agg
from ..seeds import digest, rng_for

ID = "C18"
LEVEL = "exploration"
# thorough: exhaustive order products for fixed matrices: 4 matrices with m=4 (1296 each), 6 with m=3 (8 each)
EXH_M4 = 4
EXH_M3 = 6
N_EXH = EXH_M4 * 1296 + EXH_M3 * 8
BUDGET = {
    "quick": {"runs": 6000, "wall": 300, "chunk": 40},
    "thorough": {"runs": N_EXH + 300000, "wall": 3400, "chunk": 150},
}
RULE = (
    "PCGrad: conflict-rich matrices (m<=6 rows drawn around antagonistic directions, incl. zero, duplicate and "
    "badly scaled rows); the scheduler chooses the m projection orders through the torch.randperm seam; oracle "
    "(a) = float64 reference of the paper's algorithm on the RECORDED orders, (b) for m<=4 membership in the "
    "finite candidate set of all (m-1)!^m order combinations and == plain sum when no two rows conflict; the "
    "thorough tier enumerates the WHOLE order product for 4 matrices with m=4 (1296 each) and 6 with m=3. "
    "GradDrop: the scheduler chooses the uniforms through the torch.rand seam incl. 0.0, values adjacent to the "
    "purity and columns of pure sign; leak vectors in [0,1]^m incl. 0 and 1; oracle = per coordinate the branch "
    "dictated by the recorded uniform (any branch at a tie) and, seam-agnostic, membership in {keep-positive, "
    "keep-negative}. Random: z within +-5.5 through the torch.randn seam; weights (from aggregator.weighting under "
    "the same draw and recovered from the output on full-row-rank J) strictly positive, summing to one, == "
    "softmax(z). Non-trivial: PCGrad run with >=2 successive projections of one row / GradDrop with both signs "
    "in a column / Random always; in 40% of the Random runs the same Random object has been called before on "
    "matrices with more/fewer rows (S3 history); distinct = digest of (matrix, draws)."
)
REAL = ["torchjd.aggregation.PCGrad", "torchjd.aggregation.GradDrop", "torchjd.aggregation.Random"]
STUBS = ["torch.randperm / torch.rand / torch.randn while an aggregator call is in progress (S2 seam; draws stay inside the support of the real generators)"]
ASSUMPTIONS = [
    "only the PCGrad, GradDrop and Random clauses are decided; MGDA and CAGrad clauses have no seam",
    "PCGrad is continuous in its input (projection-if-negative), so the reference comparison uses a forward error bound 64*(n+m)*m^2*eps*max row norm and no branch margin",
    "GradDrop: membership of every coordinate in {keep-positive, keep-negative} (+ neither at a tie) is what the statement asks; the branch check accepts either convention f(P)>U or f(P)>1-U as long as one of them explains all columns",
    "PCGrad: for m<=4 the verdict is membership in the exhaustive candidate set of all order combinations (the statement allows whatever orders are drawn); for m in {5,6}, where that set is too large, a mismatch with the reference under the recorded orders is judged only after five other ways of choosing orders from the same draws (rows reversed, read backwards, inverse permutation, fixed ascending/descending) have been tried -- an implementation choosing valid orders in yet another way would be flagged there; Random: equality with softmax of the draw is recorded, not judged",
    "if the implementation stops drawing through these functions the seam records nothing and only the seam-agnostic oracles apply (reported as seam_reached=false)",
]


# ----------------------------------------------------------------------------------------------
def pcgrad_ref(J, orders):
    """Paper's Algorithm 1 under given orders (orders[i] = list of j != i in projection order)."""
    m = J.shape[0]
    total = np.zeros(J.shape[1])
    max_proj = 0
    for i in range(m):
        g = J[i].copy()
        cnt = 0
        for j in orders[i]:
            if j == i:
                continue
            ip = float(g @ J[j])
            if ip < 0.0:
                g = g - ip / float(J[j] @ J[j]) * J[j]
                cnt += 1
        max_proj = max(max_proj, cnt)
        total += g
    return total, max_proj


def _conflict_matrix(rng, m, n):
    dirs = [[rng.gauss(0, 1) for _ in range(n)] for _ in range(rng.choice([1, 2, 2, 3]))]
    rows = []
    for _ in range(m):
        d = rng.choice(dirs)
        sgn = rng.choice([-1, 1])
        sc = 10 ** rng.uniform(-1.5, 1.5) if rng.random() < 0.3 else rng.uniform(0.3, 2.0)
        rows.append([sc * (sgn * x + 0.4 * rng.gauss(0, 1)) for x in d])
    r = rng.random()
    if r < 0.08:
        rows[rng.randrange(m)] = [0.0] * n
    elif r < 0.16 and m >= 2:
        i, j = rng.sample(range(m), 2)
        rows[j] = list(rows[i])
    elif r < 0.22:
        # mutually orthogonal-ish non-conflicting rows: plain sum expected
        rows = [[abs(x) for x in row] for row in rows]
    return rows


def _full_perm(i, others):
    return [i] + list(others)


def _orders_from_index(m, idx):
    per = list(itertools.permutations(range(m - 1)))
    base = len(per)
    perms = []
    for i in range(m):
        p = per[idx % base]
        idx //= base
        others = [j for j in range(m) if j != i]
        perms.append(_full_perm(i, [others[t] for t in p]))
    return perms


def generate(rng, tier, index):
    dtype = "float64" if rng.random() < 0.6 else "float32"
    if tier == "thorough" and index < N_EXH:
        if index < EXH_M4 * 1296:
            mi, oi, m = index // 1296, index % 1296, 4
        else:
            r = index - EXH_M4 * 1296
            mi, oi, m = 100 + r // 8, r % 8, 3
        mrng = rng_for("c18-exhaustive-matrix", mi)
        n = mrng.choice([3, 4, 6])
        return {"kind": "pcgrad", "dtype": "float64", "J": _conflict_matrix(mrng, m, n), "perms": _orders_from_index(m, oi), "stratum": [mi, oi]}
    kind = ["pcgrad", "graddrop", "random"][index % 3]
    if kind == "pcgrad":
        m = rng.choice([2, 3, 3, 4, 4, 5, 6])
        n = rng.choice([1, 2, 3, 4, 6, 8])
        J = _conflict_matrix(rng, m, n)
        perms = [rng.sample(range(m), m) for _ in range(m)]
        return {"kind": kind, "dtype": dtype, "J": J, "perms": perms}
    if kind == "graddrop":
        m = rng.choice([1, 2, 3, 4, 5])
        n = rng.choice([1, 2, 3, 5, 8])
        J = [[rng.choice([-1, 1]) * rng.uniform(0.1, 2.0) for _ in range(n)] for _ in range(m)]
        for c in range(n):
            r = rng.random()
            if r < 0.12:
                for i in range(m):
                    J[i][c] = abs(J[i][c])  # P = 1
            elif r < 0.24:
                for i in range(m):
                    J[i][c] = -abs(J[i][c])  # P = 0
            elif r < 0.3:
                for i in range(m):
                    J[i][c] = 0.0
            elif r < 0.4:
                J[rng.randrange(m)][c] = 0.0
        leak = None
        if rng.random() < 0.7:
            leak = [rng.choice([0.0, 1.0, 0.5, rng.random()]) for _ in range(m)]
        # uniforms: a spec per column, resolved against the purity at execution time
        U = [rng.choice(["zero", "below", "above", "adjacent_below", "adjacent_above", "equal", "random", "random", "almost_one"]) for _ in range(n)]
        if rng.random() < 0.15:
            J[rng.randrange(m)][rng.randrange(n)] = -0.0
        leak_update = None
        if leak is not None and rng.random() < 0.3:
            leak_update = {"how": rng.choice(["inplace", "reassign"]), "leak": [rng.choice([0.0, 1.0, 0.5, rng.random()]) for _ in range(m)]}
        return {"kind": kind, "dtype": dtype, "J": J, "leak": leak, "leak_update": leak_update, "U": U, "U_random": [rng.random() for _ in range(n)], "f": rng.choice([None, None, "square", "smoothstep"]), "form": rng.choice(["plain", "plain", "noncontig", "requires_grad"])}
    m = rng.choice([1, 2, 3, 4, 6])
    n = rng.choice([m, m + 1, m + 3])
    J = [[rng.gauss(0, 1) for _ in range(n)] for _ in range(m)]
    z = [max(-5.5, min(5.5, rng.gauss(0, 2.0))) for _ in range(m)]
    if rng.random() < 0.2:
        z[rng.randrange(m)] = rng.choice([-5.5, 5.5])
    scn = {"kind": kind, "dtype": dtype, "J": J, "z": z}
    if rng.random() < 0.4:
        # S3 history of the aggregator object: it has been called before, on matrices with other row counts
        scn["prior_rows"] = [rng.choice([m + 1, m + 2, m + 4, max(1, m - 1), m]) for _ in range(rng.choice([1, 1, 2]))]
    return scn


class Chooser:
    def __init__(self, scn, P=None):
        self.scn = scn
        self.P = P
        self.pi = 0

    def randperm(self, n):
        perms = self.scn.get("perms", [])
        if self.pi < len(perms) and len(perms[self.pi]) == n:
            p = perms[self.pi]
            self.pi += 1
            return p
        self.pi += 1
        return list(range(n))

    def rand(self, n):
        spec = self.scn.get("U", ["random"] * n)
        out = []
        for c in range(n):
            kind = spec[c] if c < len(spec) else "random"
            p = self.P[c] if self.P is not None and c < len(self.P) and math.isfinite(self.P[c]) else 0.5
            eps = 1.2e-7 if self.scn["dtype"] == "float32" else 2.3e-16
            if kind == "zero":
                u = 0.0
            elif kind == "below":
                u = 0.5 * p
            elif kind == "above":
                u = 0.5 * (p + 1.0)
            elif kind == "adjacent_below":
                u = p * (1 - 8 * eps) - 1e-300
            elif kind == "adjacent_above":
                u = p * (1 + 8 * eps) + 8 * eps * 1e-3
            elif kind == "equal":
                u = p
            elif kind == "almost_one":
                u = 1.0 - (6e-8 if self.scn["dtype"] == "float32" else 1.2e-16)
            else:
                u = self.scn.get("U_random", [0.5] * n)[c]
            u = min(max(u, 0.0), 1.0 - (6e-8 if self.scn["dtype"] == "float32" else 1.2e-16))
            out.append(u)
        return out

    def randn(self, n):
        z = list(self.scn.get("z", []))
        return (z + [0.0] * n)[:n]


def execute(scn):
    dtype = torch.float32 if scn["dtype"] == "float32" else torch.float64
    eps = 1.1920929e-07 if scn["dtype"] == "float32" else 2.220446049250313e-16
    from ..aggs import GD_F, matrix_form

    Jt = matrix_form(torch.tensor(scn["J"], dtype=dtype), scn.get("form", "plain"))
    J = Jt.detach().to(torch.float64).numpy()
    m, n = J.shape
    stats, events, viols, sets = {"api_calls": 1}, [], [], {}
    kind = scn["kind"]
    nontrivial = True
    before = Jt.detach().clone()
    if kind == "pcgrad":
        A = make_agg({"kind": "PCGrad"})
        seam = seams.RngSeam(Chooser(scn))
        with seam.armed():
            out = A(Jt)
        got = out.detach().to(torch.float64).numpy()
        rec = [r for r in seam.record if r[0] == "randperm"]
        seam_ok = len(rec) == m and all(r[1] == m and sorted(r[2]) == list(range(m)) for r in rec)
        maxn = float(np.sqrt((J**2).sum(axis=1)).max()) if m else 0.0
        tol = 64 * (n + m) * m * m * eps * maxn + 1e-300
        if seam_ok:
            stats["fault.schedule_projection_orders_S2"] = 1
            ref, max_proj = pcgrad_ref(J, [r[2] for r in rec])
            if max_proj >= 2:
                stats["reach.pcgrad_two_or_more_successive_projections"] = 1
            nontrivial = max_proj >= 2
            d = float(np.abs(got - ref).max()) if got.shape == ref.shape else float("inf")
            if not np.all(np.isfinite(got)) or d > tol:
                # other ways of consuming the same m draws that realise the same published algorithm:
                # draws assigned to rows in reverse, a permutation read backwards, or as its inverse
                perms = [r[2] for r in rec]
                alts = {
                    "rows_reversed": perms[::-1],
                    "read_backwards": [p[::-1] for p in perms],
                    "inverse_permutation": [[p.index(t) for t in range(m)] for p in perms],
                    "fixed_ascending_order": [list(range(m)) for _ in perms],
                    "fixed_descending_order": [list(range(m))[::-1] for _ in perms],
                }
                if len({tuple(p) for p in perms}) == 1:
                    alts = {}  # nothing to disambiguate
                matched = None
                for name, pp in alts.items():
                    r2, _ = pcgrad_ref(J, pp)
                    if got.shape == r2.shape and float(np.abs(got - r2).max()) <= tol:
                        matched = name
                        break
                if matched:
                    stats["reach.pcgrad_other_draw_convention_" + matched] = 1
                elif m <= 4:
                    # for m<=4 the statement ("for whatever orders it draws") is decided by membership in
                    # the exhaustive candidate set below; a mismatch with the recorded orders alone is
                    # a mechanism-level observation
                    stats["reach.pcgrad_recorded_orders_not_followed"] = 1
                    scn = dict(scn)
                    scn["stratum"] = None
                else:
                    viols.append({"clause": "pcgrad_differs_from_algorithm_under_recorded_orders", "step": 0, "details": {"max_abs_diff": d, "tol": tol, "orders": perms, "m": m}, "key": {}})
            eff = [[j for j in r[2] if j != i] for i, r in enumerate(rec)]
            sets["pcgrad_order_tuples"] = [f"{m}:{eff}"]
        else:
            stats["reach.seam_not_reached"] = 1
        # seam-agnostic oracles
        G = J @ J.T
        if not (G < -1e-12 * maxn * maxn).any():
            if not (G < 0).any():
                stats["reach.pcgrad_no_conflict_plain_sum"] = 1
                d = float(np.abs(got - J.sum(axis=0)).max())
                if d > tol:
                    viols.append({"clause": "pcgrad_not_plain_sum_without_conflict", "step": 0, "details": {"max_abs_diff": d, "tol": tol}, "key": {}})
        if m <= 4 and (scn.get("stratum") is None or scn["stratum"][1] % 97 == 0):
            per = list(itertools.permutations(range(m - 1)))
            best = np.inf
            for combo in itertools.product(range(len(per)), repeat=m):
                orders = []
                for i, ci in enumerate(combo):
                    others = [j for j in range(m) if j != i]
                    orders.append([others[t] for t in per[ci]])
                c, _ = pcgrad_ref(J, orders)
                best = min(best, float(np.abs(got - c).max()))
                if best <= tol:
                    break
            stats["reach.pcgrad_candidate_set_checked"] = 1
            if best > tol:
                viols.append({"clause": "pcgrad_outside_candidate_set", "step": 0, "details": {"distance_to_nearest_candidate": best, "tol": tol, "m": m}, "key": {}})
    elif kind == "graddrop":
        leak = scn.get("leak")
        A = make_agg({"kind": "GradDrop", "leak": leak, "f": scn.get("f")}, dtype)
        with torch.no_grad():
            Pt = 0.5 * (torch.ones_like(Jt[0]) + Jt.sum(dim=0) / Jt.abs().sum(dim=0))
            Pt = GD_F[scn.get("f")](Pt)  # the purity passed through the user's monotone f
        P = [float(x) for x in Pt]
        leaks_ok = [leak]
        upd = scn.get("leak_update")
        if upd and leak is not None and getattr(A, "leak", None) is not None:
            # a leak schedule: the user changes the leak of an existing instance. Whether an implementation
            # follows the change or keeps the constructor's values is not stated; mixing both is wrong.
            newl = torch.tensor(upd["leak"], dtype=dtype)
            if upd["how"] == "inplace":
                with torch.no_grad():
                    A.leak.copy_(newl)
            else:
                A.leak = newl
            leaks_ok = [upd["leak"], leak]
            stats["reach.graddrop_leak_changed_after_construction"] = 1
        seam = seams.RngSeam(Chooser(scn, P))
        with seam.armed():
            out = A(Jt)
        got = out.detach().to(torch.float64).numpy()
        rec = [r for r in seam.record if r[0] == "rand"]
        pos = np.where(J > 0, J, 0.0)
        neg = np.where(J < 0, J, 0.0)

        def _cands(lv):
            lkv = np.zeros(m) if lv is None else np.array(torch.tensor(lv, dtype=dtype).to(torch.float64))
            return (pos.sum(axis=0) + (lkv[:, None] * neg).sum(axis=0), neg.sum(axis=0) + (lkv[:, None] * pos).sum(axis=0), (lkv[:, None] * J).sum(axis=0))

        tol0 = 16 * (m + 2) * eps * np.abs(J).sum(axis=0) + 1e-300
        chosen = leaks_ok[0]
        if len(leaks_ok) > 1 and got.shape == (n,):
            for lv in leaks_ok:
                kp, kn, k0 = _cands(lv)
                if all(min(abs(got[c] - kp[c]), abs(got[c] - kn[c]), abs(got[c] - k0[c])) <= tol0[c] for c in range(n)):
                    chosen = lv
                    break
        leak = chosen
        keep_pos, keep_neg, keep_none = _cands(chosen)
        tolv = 16 * (m + 2) * eps * np.abs(J).sum(axis=0) + 1e-300
        seam_ok = len(rec) == 1 and len(rec[0][2]) == n
        both_signs = any((J[:, c] > 0).any() and (J[:, c] < 0).any() for c in range(n))
        nontrivial = both_signs
        if got.shape != (n,) or not np.all(np.isfinite(got)):
            viols.append({"clause": "graddrop_bad_output", "step": 0, "details": {"shape": list(got.shape)}, "key": {}})
        else:
            Ud = torch.tensor(rec[0][2], dtype=torch.float64).to(dtype).to(torch.float64).numpy() if seam_ok else None
            if seam_ok:
                stats["fault.schedule_sign_draws_S2"] = 1
            else:
                stats["reach.seam_not_reached"] = 1
            branches = set()
            conv_bad = {"A": [], "B": []}  # columns inconsistent with: A  pos iff f(P) > U ; B  pos iff f(P) > 1-U
            for c in range(n):
                cands = {"pos": keep_pos[c], "neg": keep_neg[c], "none": keep_none[c]}
                member = any(abs(got[c] - cands[a]) <= tolv[c] for a in ("pos", "neg"))
                if seam_ok and math.isfinite(P[c]):
                    p, u = P[c], float(Ud[c])
                    for conv, uu in (("A", u), ("B", 1.0 - u)):
                        if abs(p - uu) <= 8 * eps * max(abs(p), abs(uu), 1.0):
                            allowed = ["pos", "neg", "none"]
                        elif p > uu:
                            allowed = ["pos"]
                        else:
                            allowed = ["neg"]
                        if not any(abs(got[c] - cands[a]) <= tolv[c] for a in allowed):
                            conv_bad[conv].append(c)
                        if conv == "A":
                            if len(allowed) == 3:
                                stats["reach.graddrop_tie_draw"] = stats.get("reach.graddrop_tie_draw", 0) + 1
                                member = member or abs(got[c] - cands["none"]) <= tolv[c]
                            else:
                                branches.add(allowed[0])
                    if u == 0.0:
                        stats["reach.graddrop_uniform_zero"] = stats.get("reach.graddrop_uniform_zero", 0) + 1
                if not member:
                    viols.append({"clause": "graddrop_coordinate_not_a_sign_sum_with_leak", "step": 0, "details": {"column": c, "got": float(got[c]), "keep_positive": float(keep_pos[c]), "keep_negative": float(keep_neg[c]), "purity": P[c], "uniform": None if Ud is None else float(Ud[c]), "leak": leak}, "key": {}})
            if seam_ok and conv_bad["A"] and conv_bad["B"] and not viols:
                c = conv_bad["A"][0]
                viols.append({"clause": "graddrop_branch_differs_from_recorded_uniform", "step": 0, "details": {"columns_inconsistent_with_f(P)>U": conv_bad["A"], "columns_inconsistent_with_f(P)>1-U": conv_bad["B"], "column": c, "got": float(got[c]), "keep_positive": float(keep_pos[c]), "keep_negative": float(keep_neg[c]), "purity": P[c], "uniform": float(Ud[c])}, "key": {}})
            if seam_ok and not conv_bad["A"]:
                stats["reach.graddrop_convention_pos_iff_fP_gt_U"] = 1
            if branches == {"pos", "neg"}:
                stats["reach.graddrop_both_branches_in_one_call"] = 1
    else:
        A = make_agg({"kind": "Random"})
        seam = seams.RngSeam(Chooser(scn))
        with seam.armed():
            for m0 in scn.get("prior_rows", []):
                A(torch.ones(m0, n, dtype=dtype) * torch.arange(1, m0 + 1, dtype=dtype)[:, None])
                stats["reach.random_instance_called_before_with_other_row_count"] = 1
                stats["api_calls"] += 1
            del seam.record[:]
            out = A(Jt)
            w_t = None
            try:
                w_t = A.weighting(Jt)
            except Exception:  # noqa: BLE001
                w_t = None
        got = out.detach().to(torch.float64).numpy()
        rec = [r for r in seam.record if r[0] == "randn"]
        seam_ok = len(rec) >= 1 and len(rec[0][2]) == m
        tol = 64 * (m + n) * eps * (np.abs(J).sum(axis=0).max() if m else 0.0) + 1e-300
        if seam_ok:
            stats["fault.schedule_weight_draws_S2"] = 1
            z = torch.tensor(rec[0][2], dtype=torch.float64).to(dtype).to(torch.float64).numpy()
            sm = np.exp(z - z.max())
            sm = sm / sm.sum()
            d = float(np.abs(got - sm @ J).max())
            # "softmax of a Gaussian vector" is the mechanism; the statement only asks for a strictly
            # positive convex combination, so this is recorded, not judged
            if got.shape == (n,) and d <= tol:
                stats["reach.random_equals_softmax_of_recorded_draw"] = 1
        else:
            stats["reach.seam_not_reached"] = 1
        if w_t is not None:
            w = w_t.detach().to(torch.float64).numpy()
            if w.shape != (m,) or not (w > 0).all() or abs(w.sum() - 1.0) > 16 * m * eps:
                viols.append({"clause": "random_weights_not_strictly_positive_convex", "step": 0, "details": {"weights": [float(x) for x in w]}, "key": {}})
        if np.linalg.matrix_rank(J) == m and got.shape == (n,):
            w_rec, *_ = np.linalg.lstsq(J.T, got, rcond=None)
            cond = np.linalg.cond(J)
            wt = 64 * (m + n) * eps * cond * max(1.0, float(np.abs(J).max()))
            stats["reach.random_weights_recovered_from_output"] = 1
            if (w_rec < -wt).any() or abs(w_rec.sum() - 1.0) > wt * m + 1e-12 or float(np.abs(J.T @ w_rec - got).max()) > tol * 10 + 1e-9 * float(np.abs(got).max()):
                viols.append({"clause": "random_output_not_a_convex_combination", "step": 0, "details": {"recovered_weights": [float(x) for x in w_rec], "tol": wt}, "key": {}})
            if seam_ok and (w_rec <= 0).any() and (w_rec > -wt).all():
                stats["reach.random_positivity_below_resolution"] = 1
    if not torch.equal(before, Jt.detach()):
        viols.append({"clause": "input_modified", "step": 0, "details": {"kind": kind}, "key": {}})
    events.append([kind, digest(out.detach().numpy().tobytes())])
    sets["kind"] = [kind]
    uniq = {}
    for v in viols:
        uniq.setdefault(v["clause"], v)
    return {"violations": list(uniq.values()), "events": events, "stats": stats, "sets": sets, "sig": digest([kind, scn["J"], scn.get("perms"), scn.get("U"), scn.get("z"), scn.get("leak")]), "nontrivial": bool(nontrivial)}


def evidence_extra(agg_stats, sets, tier):
    tuples = sets.get("pcgrad_order_tuples", [])
    by_m = {}
    for t in tuples:
        mm = t.split(":")[0]
        by_m[mm] = by_m.get(mm, 0) + 1
    total = {str(m): math.factorial(m - 1) ** m for m in range(2, 7)}
    return {
        "pcgrad_distinct_order_tuples_by_m": by_m,
        "pcgrad_order_tuples_total_by_m": total,
        "exhaustive_part": f"thorough tier: all 1296 order combinations for {EXH_M4} matrices with m=4 and all 8 for {EXH_M3} matrices with m=3" if tier == "thorough" else "quick tier samples orders",
        "seam_reached": agg_stats.get("reach.seam_not_reached", 0) == 0,
    }


def shrink(scn):
    J = scn["J"]
    if scn.get("prior_rows"):
        for i in range(len(scn["prior_rows"])):
            s = copy.deepcopy(scn)
            del s["prior_rows"][i]
            yield s
    m, n = len(J), len(J[0])
    if n > 1:
        for c in range(n):
            s = copy.deepcopy(scn)
            s["J"] = [[v for j, v in enumerate(r) if j != c] for r in J]
            if "U" in s:
                del s["U"][c]
                del s["U_random"][c]
            yield s
    if scn["kind"] != "pcgrad" and m > 1:
        for i in range(m):
            s = copy.deepcopy(scn)
            del s["J"][i]
            if s.get("leak"):
                del s["leak"][i]
            if s.get("z"):
                del s["z"][i]
            yield s
    if scn["dtype"] == "float32":
        s = copy.deepcopy(scn)
        s["dtype"] = "float64"
        yield s
    s = copy.deepcopy(scn)
    s["J"] = [[float(round(v, 1)) for v in r] for r in J]
    if s["J"] != J:
        yield s
    if scn.get("leak"):
        s = copy.deepcopy(scn)
        s["leak"] = None
        yield s
