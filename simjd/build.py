"""Torch interpreter of program specs: builds the real autograd graph (system under test, and twins).

Probe nodes are simulator-owned *user* code (torch.autograd.Function): identity in value, they log
every backward sweep that crosses them (S5) and can be made hostile to vmap (F7).
"""
import torch

_F = torch._C._functorch

DTYPES = {"float32": torch.float32, "float64": torch.float64}


class ProbeLog:
    """Event log of one world. Appending never draws randomness nor reads a clock."""

    def __init__(self):
        self.events = []

    def clear(self):
        self.events = []


class _Probe(torch.autograd.Function):
    @staticmethod
    def forward(ctx, x, tag, hostile, saves, log):
        ctx.tag = tag
        ctx.hostile = hostile
        ctx.saves = saves
        ctx.log = log
        if saves:
            ctx.save_for_backward(x)
        return x.view_as(x)

    @staticmethod
    def backward(ctx, g):
        batched = bool(_F.is_batchedtensor(g))
        bs = None
        if batched:
            bs = int(_F.get_unwrapped(g).shape[_F.maybe_get_bdim(g)])
        if ctx.saves:
            # Touching saved tensors raises the genuine torch RuntimeError if the graph was freed.
            (x,) = ctx.saved_tensors
        ctx.log.events.append(("sweep", ctx.tag, "vmap" if batched else "seq", bs))
        if ctx.hostile:
            # data-dependent Python control flow: fine sequentially, impossible under vmap
            if float(g.abs().sum().item()) < -1.0:
                g = g * 0.0
        return g, None, None, None, None


def _softplus(x):
    # torch's default: linear above the threshold of 20 (log(1+exp(x)) would overflow in float32 from x~88)
    return torch.nn.functional.softplus(x, beta=1.0, threshold=20.0)


_UNARY = {
    "tanh": torch.tanh,
    "sin": torch.sin,
    "square": lambda x: x * x,
    "softplus": _softplus,
    "neg": lambda x: -x,
    "exp": torch.exp,
    "sigmoid": torch.sigmoid,
    "cube": lambda x: x * x * x,
}


class Graph:
    """One instantiation of a spec: name -> tensor, everything kept alive for the whole run."""

    def __init__(self, spec, log=None):
        self.spec = spec
        self.log = log if log is not None else ProbeLog()
        self.dtype = DTYPES[spec["dtype"]]
        self.t = {}
        self.leaf_names = []
        self.node_names = []
        self._build()

    def _build(self):
        self._shared_buffer = torch.zeros(64, dtype=self.dtype)
        self._shared_used = 3
        for leaf in self.spec["leaves"]:
            x = torch.tensor(leaf["vals"], dtype=self.dtype).reshape(tuple(leaf["shape"]))
            x = x.clone()
            if leaf.get("layout") == "t" and x.ndim >= 2:
                # same logical values, non-contiguous memory (like the weight of a transposed layer)
                x = x.transpose(0, -1).contiguous().transpose(0, -1)
            if leaf.get("layout") == "s":
                # a leaf that is a window into a larger buffer (non-zero storage offset, storage shared with others)
                buf = self._shared_buffer
                n_el = x.numel()
                start = self._shared_used
                if start + n_el <= buf.numel():
                    self._shared_used += n_el
                    win = buf[start : start + n_el].view(x.shape)
                    win.copy_(x)
                    x = win.detach()
            x.requires_grad_(bool(leaf["rg"]))
            if leaf.get("kind") == "param" and leaf["rg"]:
                x = torch.nn.Parameter(x)
            self.t[leaf["name"]] = x
            self.leaf_names.append(leaf["name"])
        for node in self.spec["nodes"]:
            outs = self._eval(node)
            for name, v in zip(node["out"], outs):
                self.t[name] = v
                self.node_names.append(name)

    def _eval(self, node):
        op = node["op"]
        p = node.get("p", {})
        ins = [self.t[n] for n in node["in"]]
        if len(ins) > 1 and len({t.dtype for t in ins}) > 1:
            # mixed precision operands: the user converts to the wider type explicitly
            wide = torch.float64 if any(t.dtype == torch.float64 for t in ins) else torch.float32
            ins = [t if t.dtype == wide else t.to(wide) for t in ins]
        if op in _UNARY:
            return [_UNARY[op](ins[0])]
        if op == "scale":
            return [ins[0] * float(p["c"])]
        if op == "add":
            return [ins[0] + ins[1]]
        if op == "sub":
            return [ins[0] - ins[1]]
        if op == "mul":
            return [ins[0] * ins[1]]
        if op == "lin":
            W = torch.tensor(p["W"], dtype=ins[0].dtype)
            return [(W @ ins[0].reshape(-1)).reshape(tuple(p["shape"]))]
        if op == "sum":
            return [ins[0].sum()]
        if op == "mean":
            return [ins[0].mean()]
        if op == "sumdim":
            return [ins[0].sum(dim=int(p["dim"]))]
        if op == "reshape":
            return [ins[0].reshape(tuple(p["shape"]))]
        if op == "transpose":
            return [ins[0].transpose(int(p["d0"]), int(p["d1"]))]
        if op == "slice":
            return [ins[0].narrow(int(p["dim"]), int(p["start"]), int(p["stop"]) - int(p["start"]))]
        if op == "cat":
            return [torch.cat(ins, dim=int(p["dim"]))]
        if op == "stack":
            return [torch.stack(ins, dim=0)]
        if op == "outer":
            return [torch.outer(ins[0], ins[1])]
        if op == "matmul":
            return [torch.matmul(ins[0], ins[1])]
        if op == "unbind":
            return list(torch.unbind(ins[0], dim=int(p["dim"])))
        if op == "split":
            return list(torch.split(ins[0], [int(s) for s in p["sizes"]], dim=int(p["dim"])))
        if op == "take":
            return [ins[0].reshape(-1)[torch.tensor(p["idx"], dtype=torch.int64)]]
        if op == "where":
            mask = torch.tensor(p["mask"], dtype=torch.bool).reshape(ins[0].shape)
            return [torch.where(mask, ins[0], ins[1])]
        if op == "cast":
            return [ins[0].to(torch.float32 if ins[0].dtype == torch.float64 else torch.float64)]
        if op == "detach":
            return [ins[0].detach()]
        if op == "probe":
            if not ins[0].requires_grad:
                return [ins[0].view_as(ins[0])]
            if p.get("hook"):
                y = ins[0].view_as(ins[0])
                tag, log = p["tag"], self.log

                def _hook(g, tag=tag, log=log):
                    batched = bool(_F.is_batchedtensor(g))
                    bs = int(_F.get_unwrapped(g).shape[_F.maybe_get_bdim(g)]) if batched else None
                    log.events.append(("sweep", tag, "vmap" if batched else "seq", bs))
                    return g

                y.register_hook(_hook)  # a user-registered tensor hook (logging / clipping style), identity in value
                return [y]
            return [
                _Probe.apply(
                    ins[0], p["tag"], bool(p.get("hostile", False)), bool(p.get("saves", False)), self.log
                )
            ]
        raise ValueError(f"unknown op {op}")

    def leaves(self):
        return [self.t[n] for n in self.leaf_names]

    def all_named(self):
        return [(n, self.t[n]) for n in self.leaf_names + self.node_names]
