"""An autojac world: one spec instantiated as a real autograd graph under a simulator-chosen S1
schedule, the NumPy model of the same spec, and the oracles' shared helpers."""
import numpy as np
import torch

from . import seams
from .aggs import HAS_REF, RecordingAggregator, make_agg, ref_apply
from .build import DTYPES, Graph, ProbeLog
from .model import Model, numel

EPS = {"float32": 1.1920929e-07, "float64": 2.220446049250313e-16}


def spec_eps(spec):
    """Unit round-off governing a program: float32's as soon as any value passes through float32."""
    if spec["dtype"] == "float32" or any(n["op"] == "cast" for n in spec["nodes"]):
        return EPS["float32"]
    return EPS["float64"]


# ----------------------------------------------------------------------------------------------
# schedules (S1)
# ----------------------------------------------------------------------------------------------
def gen_sched(rng, spec, mode=None):
    leaves = [leaf["name"] for leaf in spec["leaves"]]
    nodes = [o for n in spec["nodes"] for o in n["out"]]
    if mode is None:
        mode = rng.choice(["perm", "perm", "scatter", "aligned"])
    ranks = {}
    if mode == "perm":
        # leaves: a permutation of 0..L-1 (L <= 8 -> no collision in any set: iteration == ascending
        # rank == exactly the chosen permutation); nodes likewise among themselves, above the leaves
        lr = list(range(len(leaves)))
        rng.shuffle(lr)
        for n, r in zip(leaves, lr):
            ranks[n] = r
        nr = list(range(len(nodes)))
        rng.shuffle(nr)
        base = 64
        for n, r in zip(nodes, nr):
            ranks[n] = base + r
    else:
        names = leaves + nodes
        pool = rng.sample(range(1, 4096), len(names))
        mult = 16 if mode == "aligned" else 1
        for n, r in zip(names, pool):
            ranks[n] = r * mult
    return {"mode": mode, "ranks": ranks, "discover_salt": rng.randrange(1 << 30)}


def identity_sched(spec):
    leaves = [leaf["name"] for leaf in spec["leaves"]]
    nodes = [o for n in spec["nodes"] for o in n["out"]]
    ranks = {n: i for i, n in enumerate(leaves)}
    ranks.update({n: 64 + i for i, n in enumerate(nodes)})
    return {"mode": "perm", "ranks": ranks, "discover_salt": 0}


# ----------------------------------------------------------------------------------------------
class World:
    _offset_counter = 0

    def __init__(self, spec, sched, twin_offset=0):
        self.spec = spec
        self.sched = sched
        self.log = ProbeLog()
        self.graph = Graph(spec, self.log)
        self.t = self.graph.t
        self.dtype_name = spec["dtype"]
        self.dtype = DTYPES[spec["dtype"]]
        self.eps = spec_eps(spec)
        self.leaf_names = list(self.graph.leaf_names)
        self.names = self.graph.leaf_names + self.graph.node_names
        self._name_of = {id(self.t[n]): n for n in self.names}
        ranks = sched["ranks"]
        seams.next_world()
        seams.set_ranks([(self.t[n], ranks[n] + twin_offset) for n in self.names if n in ranks])
        self._salt = int(sched.get("discover_salt", 0))
        self._keep = []  # keeps every .grad we ever saw alive -> ids are never recycled

    def name_of(self, tensor):
        return self._name_of.get(id(tensor))

    def discover_key(self, tensor):
        n = self._name_of.get(id(tensor), "~")
        # order decided by the scheduler: salted rank
        r = self.sched["ranks"].get(n, 0)
        return ((r * 2654435761 + self._salt) % 1000003, n)

    # ------------------------------------------------------------------ snapshots
    def grads(self):
        """name -> None | (id of the grad tensor object, raw bytes, data_ptr) for every named tensor."""
        out = {}
        for n in self.names:
            t = self.t[n]
            g = t.grad if (t.is_leaf or t.retains_grad) else _quiet_grad(t)
            if g is None:
                out[n] = None
            else:
                self._keep.append(g)
                out[n] = (id(g), tensor_bytes(g), g.data_ptr())
        return out

    def values_bytes(self):
        return {n: tensor_bytes(self.t[n]) for n in self.names}

    def grad_array(self, name):
        g = self.t[name].grad
        return None if g is None else g.detach().to(torch.float64).numpy().copy()


def _quiet_grad(t):
    import warnings

    with warnings.catch_warnings():
        warnings.simplefilter("ignore")
        return t.grad


def tensor_bytes(t):
    return t.detach().contiguous().cpu().numpy().tobytes()


# ----------------------------------------------------------------------------------------------
# executing API calls described by JSON
# ----------------------------------------------------------------------------------------------
class InvalidScenario(Exception):
    """The scenario is not a valid use of the API according to the spec/model alone (a shrink candidate
    that e.g. made an output independent of every parameter). Never raised for generated scenarios."""


def validate_call(model, call, cutmodel=None):
    """Validity of a call as a function of the spec only (no torchjd code involved): returns None or a reason."""
    from .aggs import admissible

    leaves = {leaf["name"]: leaf for leaf in model.spec["leaves"]}

    def is_param(n):
        return n in leaves and bool(leaves[n]["rg"])

    if call.get("chunk") is not None and call["chunk"] <= 0:
        return "chunk"
    if call["api"] == "backward":
        ts = call["tensors"]
        if not ts or len(set(ts)) != len(ts):
            return "tensors"
        for o in ts:
            if o not in model.values or o in leaves or not model.values[o].rq or model.values[o].val.size == 0:
                return f"tensor {o} is not a differentiable non-leaf value"
        if call.get("inputs") is not None:
            if not all(is_param(n) for n in call["inputs"]):
                return "inputs"
        m = sum(model.values[o].val.size for o in ts)
        if not admissible(call["agg"], m):
            return "aggregator not admissible"
        return None
    losses, feats = call["losses"], call["features"]
    if not losses or not feats or len(set(feats)) != len(feats):
        return "losses/features"
    for o in list(losses) + list(feats):
        if o not in model.values or o in leaves or not model.values[o].rq:
            return f"{o} is not a differentiable non-leaf value"
    if any(model.values[o].shape != () for o in losses):
        return "non-scalar loss"
    cutmodel = cutmodel or Model(model.spec, cut=feats)
    dshared, dtasks = default_params_mtl(model, cutmodel, losses, feats)
    shared = call["shared"] if call.get("shared") is not None else dshared
    tasks = call["tasks"] if call.get("tasks") is not None else dtasks
    if len(tasks) != len(losses):
        return "len"
    if not all(is_param(n) for n in shared) or not all(is_param(n) for tp in tasks for n in tp):
        return "params"
    if len(set(shared)) != len(shared) or any(len(set(tp)) != len(tp) for tp in tasks):
        return "duplicate params"
    if any(p in shared for tp in tasks for p in tp):
        return "overlap"
    if not admissible(call["agg"], len(losses)):
        return "aggregator not admissible"
    # every loss must be differentiable w.r.t. something it is differentiated against is not required by
    # torch (allow_unused), but the loss itself must require grad: checked above
    return None


def require_valid(model, call, cutmodel=None):
    why = validate_call(model, call, cutmodel)
    if why is not None:
        raise InvalidScenario(why)


def _form(seq, kind):
    """The container form in which an Iterable[Tensor] argument is handed over (list / tuple / one-shot
    generator): part of the argument space of the API, which is typed Iterable."""
    if kind == "tuple":
        return tuple(seq)
    if kind == "gen":
        return (x for x in list(seq))
    return list(seq)


def _chunk_form(call):
    k = call["chunk"]
    if k is not None and (call.get("forms") or {}).get("chunk") == "np":
        return np.int64(k)  # an integer that is not a Python int
    return k


def gen_forms(rng, n_tasks=0):
    pick = lambda: rng.choice(["list", "list", "list", "tuple", "gen"])  # noqa: E731
    return {"inputs": pick(), "shared": pick(), "tasks": [pick() for _ in range(n_tasks)], "chunk": rng.choice(["int", "int", "int", "np"])}


def run_call(world, call, record=False, agg=None):
    """Executes the real torchjd call. Returns (outcome dict, recording aggregator or None)."""
    from torchjd import backward, mtl_backward

    if agg is None:
        agg = make_agg(call["agg"], world.dtype)
    if call.get("agg_hook") is not None:
        # the user's aggregator is an nn.Module and may carry forward hooks: aggregator(J) includes them
        c = float(call["agg_hook"])
        agg.register_forward_hook(lambda mod, inp, out: out * c)
    rec = None
    if record:
        rec = RecordingAggregator(agg)
        agg = rec
    t = world.t
    dseam = seams.DiscoverSeam()
    out = {"ok": True, "exc": None, "msg": None}
    try:
        with dseam.armed(world.discover_key):
            if call["api"] == "backward":
                tensors = [t[n] for n in call["tensors"]]
                if call.get("tensors_single") and len(tensors) == 1:
                    tensors = tensors[0]
                forms = call.get("forms") or {}
                inputs = None if call.get("inputs") is None else _form([t[n] for n in call["inputs"]], forms.get("inputs", "list"))
                kwargs = {}
                if "retain" in call:
                    kwargs["retain_graph"] = bool(call["retain"])
                if "chunk" in call:
                    kwargs["parallel_chunk_size"] = _chunk_form(call)
                backward(tensors, agg, inputs, **kwargs)
            elif call["api"] == "mtl":
                losses = [t[n] for n in call["losses"]]
                features = [t[n] for n in call["features"]]
                if call.get("features_single") and len(features) == 1:
                    features = features[0]
                forms = call.get("forms") or {}
                tforms = list(forms.get("tasks", []))
                tasks = None if call.get("tasks") is None else [
                    _form([t[n] for n in tp], tforms[i] if i < len(tforms) else "list") for i, tp in enumerate(call["tasks"])
                ]
                shared = None if call.get("shared") is None else _form([t[n] for n in call["shared"]], forms.get("shared", "list"))
                kwargs = {}
                if "retain" in call:
                    kwargs["retain_graph"] = bool(call["retain"])
                if "chunk" in call:
                    kwargs["parallel_chunk_size"] = _chunk_form(call)
                mtl_backward(losses, features, agg, tasks, shared, **kwargs)
            else:
                raise AssertionError(call["api"])
    except Exception as e:  # noqa: BLE001 - the outcome class is what the oracles look at
        out = {"ok": False, "exc": type(e).__name__, "msg": str(e)[:300]}
    out["discover_calls"] = dseam.calls
    return out, rec


# ----------------------------------------------------------------------------------------------
# expected updates from the model
# ----------------------------------------------------------------------------------------------
def default_inputs_backward(model, tensors):
    anc = set()
    for n in tensors:
        anc |= set(model.values[n].anc)
    return [leaf["name"] for leaf in model.spec["leaves"] if leaf["rg"] and leaf["name"] in anc]


def default_params_mtl(model, cutmodel, losses, features):
    fanc = set()
    for n in features:
        fanc |= set(model.values[n].anc)
    rg_leaves = [leaf["name"] for leaf in model.spec["leaves"] if leaf["rg"]]
    shared = [n for n in rg_leaves if n in fanc]
    tasks = []
    for loss in losses:
        anc = set(cutmodel.values[loss].anc)
        tasks.append([n for n in rg_leaves if n in anc])
    return shared, tasks


def _dedupe(names):
    seen = []
    for n in names:
        if n not in seen:
            seen.append(n)
    return seen


def jac_error_bound(eps, m, depth, Jabs):
    """Entry-wise bound on |J_real - J_model| for any reasonable floating-point chain rule."""
    C = 256.0 * (m + depth + 2)
    floor = 1e-3 * (float(Jabs.max()) if Jabs.size else 0.0)
    return C * eps * (Jabs + floor) + 1e-290


def aggregate_model(agg_spec, J, Jabs, eps, depth, dtype_name):
    """Expected aggregation of the model Jacobian. Returns dict(vec, tol, ambiguous)."""
    m = J.shape[0]
    Jerr = jac_error_bound(eps, m, depth, Jabs)
    if J.shape[1] == 0:
        return {"vec": np.zeros(0), "tol": np.zeros(0), "ambiguous": False}
    if agg_spec["kind"] in HAS_REF:
        r = ref_apply(agg_spec, J, Jerr)
        out_round = 8.0 * (m + 2) * eps * (np.abs(r["vec"]) + (np.abs(J).max(axis=0) if m else 0.0))
        return {"vec": r["vec"], "tol": r["tol"] + out_round + 1e-290, "ambiguous": r["ambiguous"]}
    # no reference model: the same real aggregator on the model's Jacobian in canonical column order
    # (what is under test in autojac runs is the plumbing, not the aggregator)
    A = make_agg(agg_spec, torch.float64)
    vec = A(torch.tensor(J, dtype=torch.float64)).detach().numpy()
    s = float(np.abs(J).max()) if J.size else 0.0
    pref = agg_spec.get("pref") or [1.0]
    amp = 100.0 * m * (1.0 + max(abs(x) for x in pref))
    tol = np.full(J.shape[1], 1e-6 * (s + float(np.abs(vec).max() if vec.size else 0.0)) + amp * float(Jerr.max()) + 1e-290)
    if dtype_name == "float32" or eps > 1e-10:
        tol = tol * 1e3
    return {"vec": vec, "tol": tol, "ambiguous": False}


def split_vec(model, names, vec, tol):
    out = {}
    k = 0
    for n in names:
        shape = model.values[n].shape
        c = numel(shape)
        out[n] = (vec[k : k + c].reshape(shape), tol[k : k + c].reshape(shape))
        k += c
    return out


def expect_backward(model, call, eps):
    """Expected .grad increments of a valid backward call: name -> (update, tol)."""
    tensors = call["tensors"]
    inputs = call.get("inputs")
    if inputs is None:
        inputs = default_inputs_backward(model, tensors)
    inputs = _dedupe(inputs)
    canon = [leaf["name"] for leaf in model.spec["leaves"] if leaf["name"] in inputs]
    canon += [n for n in inputs if n not in canon]
    J, Jabs = model.jac_rows(tensors, canon)
    depth = model.stats()["depth"]
    r = aggregate_model(call["agg"], J, Jabs, eps, depth, model.spec["dtype"])
    if call.get("agg_hook") is not None:
        c = float(call["agg_hook"])
        r = {"vec": r["vec"] * c, "tol": r["tol"] * abs(c) + 4 * eps * np.abs(r["vec"] * c), "ambiguous": r["ambiguous"]}
    return {
        "updates": split_vec(model, canon, r["vec"], r["tol"]),
        "ambiguous": r["ambiguous"],
        "inputs": canon,
        "J": J,
        "m": J.shape[0],
    }


def expect_mtl(model, cutmodel, call, eps):
    losses = call["losses"]
    features = call["features"]
    dshared, dtasks = default_params_mtl(model, cutmodel, losses, features)
    shared = call.get("shared")
    tasks = call.get("tasks")
    shared = dshared if shared is None else list(shared)
    tasks = dtasks if tasks is None else [list(tp) for tp in tasks]
    overlap = any(p in shared for tp in tasks for p in tp)
    depth = model.stats()["depth"]
    all_leaves = [leaf["name"] for leaf in model.spec["leaves"]]
    updates = {}
    # task parameters: total derivative of each listing task's loss
    listed = _dedupe([p for tp in tasks for p in tp])
    for p in listed:
        tot = np.zeros(model.values[p].shape)
        bnd = np.zeros(model.values[p].shape)
        cnt = 0
        for i, tp in enumerate(tasks):
            if p in tp:
                Ji, Jai = model.jac_rows([losses[i]], [p])
                tot += Ji.reshape(tot.shape)
                bnd += Jai.reshape(tot.shape)
                cnt += 1
        tol = jac_error_bound(eps, cnt + 1, depth, bnd)
        updates[p] = (tot, tol)
    # shared parameters: rows back-propagated through the features only
    canon = [n for n in all_leaves if n in shared] + [n for n in shared if n not in all_leaves]
    canon = _dedupe(canon)
    ncols = sum(numel(model.values[n].shape) for n in canon)
    J = np.zeros((len(losses), ncols))
    Jabs = np.zeros((len(losses), ncols))
    for f in features:
        Jf, Jfa = model.jac_rows([f], canon)  # numel(f) x ncols
        for i, loss in enumerate(losses):
            a, b = cutmodel.cut_slices[f]
            gf = cutmodel.values[loss].jac.reshape(-1)[a:b]
            gfa = cutmodel.values[loss].jabs.reshape(-1)[a:b]
            J[i] += gf @ Jf
            Jabs[i] += gfa @ Jfa
    r = aggregate_model(call["agg"], J, Jabs, eps, depth + cutmodel.stats()["depth"], model.spec["dtype"])
    if call.get("agg_hook") is not None:
        c = float(call["agg_hook"])
        r = {"vec": r["vec"] * c, "tol": r["tol"] * abs(c) + 4 * eps * np.abs(r["vec"] * c), "ambiguous": r["ambiguous"]}
    sh_updates = split_vec(model, canon, r["vec"], r["tol"])
    return {
        "task_updates": updates,
        "shared_updates": sh_updates,
        "ambiguous": r["ambiguous"],
        "overlap": overlap,
        "shared": canon,
        "tasks": tasks,
        "J": J,
        "m": len(losses),
    }


def compare(got, exp, tol):
    """Returns None if |got-exp| <= tol everywhere, else a small dict describing the worst entry."""
    got = np.asarray(got, dtype=np.float64)
    if got.shape != exp.shape:
        return {"kind": "shape", "got": list(got.shape), "exp": list(exp.shape)}
    if not np.all(np.isfinite(got)):
        return {"kind": "nonfinite"}
    err = np.abs(got - exp)
    bad = err > tol
    if bad.any():
        idx = int(np.argmax((err / tol).reshape(-1)))
        return {
            "kind": "value",
            "index": idx,
            "got": float(got.reshape(-1)[idx]),
            "exp": float(exp.reshape(-1)[idx]),
            "tol": float(np.broadcast_to(tol, exp.shape).reshape(-1)[idx]),
        }
    return None
