"""Structural shrinking of program specs (delta debugging candidates). Names are stable, so removing
a node only needs rewiring of its consumers to one of its operands."""
import copy

from .model import Model


def _consumers(spec, name):
    return [n for n in spec["nodes"] if name in n["in"]]


def prune(spec, protected):
    """Drops nodes/leaves that nothing protected depends on."""
    spec = copy.deepcopy(spec)
    changed = True
    while changed:
        changed = False
        for node in list(reversed(spec["nodes"])):
            if any(o in protected for o in node["out"]):
                continue
            if any(_consumers(spec, o) for o in node["out"]):
                continue
            spec["nodes"].remove(node)
            changed = True
    used = set(protected)
    for n in spec["nodes"]:
        used.update(n["in"])
    spec["leaves"] = [leaf for leaf in spec["leaves"] if leaf["name"] in used]
    return spec


def valid(spec):
    try:
        Model(spec)
        return True
    except Exception:  # noqa: BLE001
        return False


def spec_candidates(spec, protected, keep_leaves=()):
    """Yields smaller specs in which every protected value name still exists."""
    protected = set(protected)
    # 1. prune dead code
    p = prune(spec, protected | set(keep_leaves))
    if len(p["nodes"]) < len(spec["nodes"]) or len(p["leaves"]) < len(spec["leaves"]):
        if valid(p):
            yield p
    # 2. remove one node, rewiring its consumers to an operand (same shape required -> validated)
    try:
        shapes = {k: v.shape for k, v in Model(spec).values.items()}
    except Exception:  # noqa: BLE001
        return
    for node in reversed(spec["nodes"]):
        if any(o in protected for o in node["out"]):
            continue
        for o in node["out"]:
            for operand in node["in"]:
                if shapes.get(operand) != shapes.get(o):
                    continue
                s = copy.deepcopy(spec)
                for n in s["nodes"]:
                    n["in"] = [operand if x == o else x for x in n["in"]]
                s = prune(s, protected | set(keep_leaves))
                if valid(s) and len(s["nodes"]) < len(spec["nodes"]):
                    yield s
                break
    # 2b. replace a value by a constant leaf of the same shape (cuts everything above it)
    for node in spec["nodes"]:
        for o in node["out"]:
            if o in protected or not _consumers(spec, o):
                continue
            shp = shapes.get(o)
            if shp is None:
                continue
            cname = "k_" + o
            if any(leaf["name"] == cname for leaf in spec["leaves"]):
                continue
            n_el = 1
            for d in shp:
                n_el *= d
            s = copy.deepcopy(spec)
            s["leaves"].append({"name": cname, "shape": list(shp), "rg": False, "vals": [0.5 + 0.25 * (k % 4) for k in range(n_el)]})
            for n in s["nodes"]:
                n["in"] = [cname if x == o else x for x in n["in"]]
            s = prune(s, protected | set(keep_leaves))
            if len(s["nodes"]) < len(spec["nodes"]) and valid(s):
                yield s
    # 3. replace a node by a simpler op of the same arity/shape (unary -> neg)
    for idx, node in enumerate(spec["nodes"]):
        if node["op"] in ("tanh", "sin", "square", "softplus", "sigmoid", "cube", "probe"):
            s = copy.deepcopy(spec)
            s["nodes"][idx]["op"] = "neg"
            s["nodes"][idx]["p"] = {}
            yield s
    # 4. leaf values -> simple, requires_grad False leaves -> dropped by rewiring is too invasive: skip
    for idx, leaf in enumerate(spec["leaves"]):
        simple = [float(1 + (k % 3)) for k in range(len(leaf["vals"]))]
        if leaf["vals"] != simple:
            s = copy.deepcopy(spec)
            s["leaves"][idx]["vals"] = simple
            yield s
    # 5. float32 -> float64
    if spec["dtype"] == "float32":
        s = copy.deepcopy(spec)
        s["dtype"] = "float64"
        yield s
