"""Self-tests: determinism (same seed twice, fresh interpreters, other PYTHONHASHSEED, other worker
count), model-vs-autograd validation, setup."""
import concurrent.futures as cf
import json
import multiprocessing
import os
import subprocess
import sys

from . import runner
from .seeds import derive


def _digests_job(args):
    pid, root, indices, tier = args
    out = []
    for i in indices:
        r = runner.run_one(pid, root, i, tier, want_scenario=False)
        out.append([i, r.get("digest"), [v.get("clause") for v in r.get("violations", [])]])
    return out


def digests(pid, tier, n, workers, seed):
    root = derive(seed, pid, tier)
    ctx = multiprocessing.get_context("fork")
    idx = list(range(n))
    chunks = [idx[k::workers] for k in range(workers)]
    res = []
    with cf.ProcessPoolExecutor(max_workers=workers, mp_context=ctx, initializer=runner._worker_init, initargs=(runner.repo_path(),)) as ex:
        for part in ex.map(_digests_job, [(pid, root, c, tier) for c in chunks if c]):
            res.extend(part)
    res.sort()
    return res


def main(args):
    if args.what == "setup":
        ctx = multiprocessing.get_context("fork")
        with cf.ProcessPoolExecutor(max_workers=1, mp_context=ctx, initializer=runner._worker_init, initargs=(runner.repo_path(),)) as ex:
            print(ex.submit(_setup_job).result(timeout=300))
        return 0
    if args.what == "model":
        ctx = multiprocessing.get_context("fork")
        with cf.ProcessPoolExecutor(max_workers=1, mp_context=ctx, initializer=runner._worker_init, initargs=(runner.repo_path(),)) as ex:
            bad, n = ex.submit(_model_job, args.n).result(timeout=1200)
        print(f"model selftest: programs={n} mismatches={bad}")
        return 0 if bad == 0 else 2
    if args.what == "determinism":
        if os.environ.get("SIMJD_DIGEST_CHILD"):
            pid, tier, n, workers, seed = json.loads(os.environ["SIMJD_DIGEST_CHILD"])
            print("DIGESTS " + json.dumps(digests(pid, tier, n, workers, seed)))
            return 0
        props = args.props.split(",") if args.props else list(runner.PROPS.keys())
        seed = int(os.environ.get("VERIF_SEED") or runner.DEFAULT_SEED)
        bad = 0
        total = 0
        for pid in props:
            outs = []
            for hashseed, workers in (("0", 16), ("12345", 1), ("999", 5)):
                env = dict(os.environ)
                env["PYTHONHASHSEED"] = hashseed
                env["SIMJD_DIGEST_CHILD"] = json.dumps([pid, "quick", args.n, workers, seed])
                r = subprocess.run(
                    [sys.executable, "-c", "import sys; from simjd.cli import main; sys.exit(main())", "selftest", "determinism"],
                    env=env, stdout=subprocess.PIPE, stderr=subprocess.PIPE, text=True,
                )
                line = [ln for ln in r.stdout.splitlines() if ln.startswith("DIGESTS ")]
                if not line:
                    print(f"{pid}: child failed: {r.stderr[-2000:]}")
                    return 2
                outs.append(json.loads(line[0][8:]))
            diffs = [a for a, b, c in zip(*outs) if not (a == b == c)]
            total += len(outs[0])
            bad += len(diffs)
            print(f"determinism {pid}: seeds={len(outs[0])} executions=3 (PYTHONHASHSEED 0/12345/999, workers 16/1/5) divergent={len(diffs)} {diffs[:3]}")
        print(f"determinism total: seeds={total} divergent={bad}")
        return 0 if bad == 0 else 2
    return 2


def _setup_job():
    import cvxpy
    import qpsolvers
    import torch

    import torchjd

    return f"ok torch={torch.__version__} cvxpy={cvxpy.__version__} qpsolvers={qpsolvers.__version__} torchjd={torchjd.__file__}"


def _model_job(n):
    import random

    import numpy as np
    import torch

    from .build import Graph
    from .model import Model
    from .spec import gen_mtl, gen_program, pick_outputs

    bad = 0
    cnt = 0
    for seed in range(n):
        rng = random.Random(derive("modeltest", seed))
        if seed % 2 == 0:
            spec, g = gen_program(rng, "float64", p_probe=0.2)
            outs = pick_outputs(rng, g)
        else:
            r = gen_mtl(rng, "float64", p_probe=0.2)
            if r is None:
                continue
            spec, roles, g = r
            outs = roles["losses"] + roles["features"]
        if not outs:
            continue
        m = Model(spec)
        G = Graph(spec)
        leaves = [leaf["name"] for leaf in spec["leaves"] if leaf["rg"]]
        J, Ja = m.jac_rows(outs, leaves)
        rows = []
        for o in outs:
            t = G.t[o]
            for idx in range(t.numel()):
                gr = torch.autograd.grad(t.reshape(-1)[idx], [G.t[x] for x in leaves], retain_graph=True, allow_unused=True)
                rows.append(np.concatenate([(x.numpy().reshape(-1) if x is not None else np.zeros(G.t[n].numel())) for x, n in zip(gr, leaves)]))
        Jt = np.array(rows).reshape(J.shape)
        cnt += 1
        from .world import spec_eps

        if (np.abs(Jt - J) > 1e4 * spec_eps(spec) * (Ja + 1)).any():
            bad += 1
    return bad, cnt
